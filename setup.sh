#!/bin/sh
# Offline setup: nothing to build; parse every spec module once with SANY so a
# broken spec is reported at setup time.
set -e
cd /verif/spec
for f in Trace.tla; do
  java -cp /opt/veriftools/tla/tla2tools.jar:/opt/veriftools/tla/CommunityModules-deps.jar tla2sany.SANY "$f" >/dev/null
done
echo "setup ok"
