#!/venv/bin/python
"""Summarise the replay artefacts of a check: failing (clause, op, sym, kind) counts."""
import collections, glob, json, sys
pid = sys.argv[1]
cnt = collections.Counter()
ex = {}
for f in glob.glob(f"/verif/out/replay/{pid}/prog_*.json"):
    d = json.load(open(f))
    p = d["program"]
    sym = p.get("sym") or next(iter(p.get("inputs", {}).values()), {}).get("sym")
    kind = p.get("kind") or next(iter(p.get("inputs", {}).values()), {}).get("kind")
    for fl in d["failed"]:
        k = (fl["clause"], fl["op"], sym, kind)
        cnt[k] += 1
        ex.setdefault(k, (f, fl["seq"]))
for k, v in sorted(cnt.items(), key=lambda kv: -kv[1]):
    print(v, k, ex[k])
