#!/venv/bin/python
"""Evaluate a candidate breaking change produced in a scratch worktree.

    tools/try_seed.py C07 [--checks C07,C05] [--src /tmp/wt/C07]

1. the patch applies to a copy of /repo's working tree, 2. the demonstration passes on the
clean tree and fails on the patched one, 3. the repository's test suite still passes on the
patched copy, 4. the named checks are run against the patched copy (VERIF_REPO).
Nothing in /repo is touched."""
import argparse, json, os, shutil, subprocess, sys, time

ap = argparse.ArgumentParser()
ap.add_argument("pid")
ap.add_argument("--checks")
ap.add_argument("--src")
ap.add_argument("--skip-suite", action="store_true")
a = ap.parse_args()
pid = a.pid
src = a.src or f"/tmp/wt/{pid}"
work = f"/var/tmp/seed/{pid}"
shutil.rmtree(work, ignore_errors=True)
os.makedirs(work)
for d in ("symmray", "tests"):
    shutil.copytree(f"/repo/{d}", f"{work}/{d}")
shutil.copy(f"{src}/patch.diff", f"{work}/patch.diff")
shutil.copy(f"{src}/demo.py", f"{work}/demo.py")
res = {"property": pid}
p = subprocess.run(["patch", "-p1", "-i", "patch.diff"], cwd=work, capture_output=True, text=True)
res["patch_applies"] = p.returncode == 0
if p.returncode:
    print(p.stdout, p.stderr)
env = dict(os.environ, PYTHONDONTWRITEBYTECODE="1")
cleandir = work + "_clean"
shutil.rmtree(cleandir, ignore_errors=True)
os.makedirs(cleandir)
shutil.copy(f"{src}/demo.py", f"{cleandir}/demo.py")
clean = subprocess.run(["/venv/bin/python", f"{cleandir}/demo.py"], cwd=cleandir, env=dict(env, PYTHONPATH="/repo"),
                       capture_output=True, text=True, timeout=1200)
shutil.rmtree(cleandir, ignore_errors=True)
res["demo_clean_exit"] = clean.returncode
pat = subprocess.run(["/venv/bin/python", "demo.py"], cwd=work, env=dict(env, PYTHONPATH=work),
                     capture_output=True, text=True, timeout=1200)
res["demo_patched_exit"] = pat.returncode
res["demo_patched_tail"] = (pat.stdout + pat.stderr).strip().splitlines()[-1:] 
if not a.skip_suite:
    t = subprocess.run(["/venv/bin/python", "-m", "pytest", "-q", "-p", "no:cacheprovider", "tests"], cwd=work,
                       env=dict(env, PYTHONPATH=work), capture_output=True, text=True, timeout=1800)
    res["suite"] = t.stdout.strip().splitlines()[-1]
checks = (a.checks or pid).split(",")
res["checks"] = {}
for c in checks:
    t0 = time.time()
    r = subprocess.run(["./check", c], cwd="/verif", env=dict(os.environ, VERIF_REPO=work, VERIF_EVIDENCE_DIR=work + "_evidence"), capture_output=True, text=True)
    viol = [l for l in r.stdout.splitlines() if l.startswith("VIOLATION")]
    clauses = sorted({cl for l in viol for cl in l.split("clauses=")[-1].split(",")})
    res["checks"][c] = {"exit": r.returncode, "violations": len(viol), "clauses": clauses[:12], "wall_s": round(time.time() - t0, 1)}
shutil.rmtree(work + "_evidence", ignore_errors=True)
print(json.dumps(res, indent=1))
