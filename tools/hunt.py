#!/venv/bin/python
"""Exploratory model checking: instances of Machine.tla with wider operation sets than the registered checks use.
Every counterexample of the model is replayed into the library (vlib/machine.py); what is reproduced is printed as
a violation of the property whose clause failed.  Nothing here is a registered check; findings are triaged by hand.

    tools/hunt.py [name ...]        (default: all instances below)
"""
import json
import os
import shutil
import sys

sys.path.insert(0, os.path.dirname(os.path.dirname(os.path.abspath(__file__))))
from harness import gen  # noqa
from vlib import machine, runner  # noqa

os.environ.setdefault("VERIF_EVIDENCE_DIR", "/var/tmp/vs/hunt_ev")
#            name        pid    sym     kind         pool        ops         rank depth mod
INSTANCES = [
    ("h1_z2f", "C05", "Z2", "fermionic", "PoolZ2s", "OpsHunt1", 3, 3, 400),
    ("h1_u1a", "C05", "U1", "abelian", "PoolU1s", "OpsHunt1", 3, 3, 400),
    ("h2_z2a", "C06", "Z2", "abelian", "PoolZ2s", "OpsHunt2", 2, 4, 400),
    ("h2_z2f", "C06", "Z2", "fermionic", "PoolZ2s", "OpsHunt2", 2, 4, 400),
    ("h2_u1f", "C03", "U1", "fermionic", "PoolU1t", "OpsHunt2", 2, 4, 400),
    ("h3_z2a", "C08", "Z2", "abelian", "PoolZ2s", "OpsHunt3", 2, 3, 400),
    ("h3_z4a", "C08", "Z4", "abelian", "PoolZ4", "OpsHunt3", 2, 3, 400),
    ("h4_z2f", "C09", "Z2", "fermionic", "PoolZ2s", "OpsHunt4", 2, 3, 400),
    ("h4_u1f", "C07", "U1", "fermionic", "PoolU1s", "OpsHunt4", 2, 3, 400),
    ("all_z2z2f", "C01", "Z2Z2", "fermionic", "PoolZ2Z2", "OpsAll", 2, 3, 600),
    ("all_u1u1a", "C01", "U1U1", "abelian", "PoolU1U1", "OpsAll", 2, 3, 600),
]


def main():
    want = sys.argv[1:]
    for name, pid, sym, kind, pool, ops, rank, depth, mod in INSTANCES:
        if want and name not in want:
            continue
        ck = runner.Check(pid, "quick", 1)
        try:
            progs = machine.run_machine(ck, sym, kind, pool, ops, rank=rank, depth=depth, mod=mod, tids=gen.Tids(100000), timeout=5400)
            ck.conform(progs)
        except Exception as e:  # noqa
            ck.problems.append(repr(e))
        rec = {"instance": name, "models": [(m["states"], m["complete"], m["wall_s"]) for m in ck.cov["models"]],
               "programs": len(progs) if "progs" in dir() else 0, "counterexamples": ck.cov.get("model_counterexamples"),
               "violations": [(c, p) for c, p in ck.violations[:10]], "problems": [str(p)[:400] for p in ck.problems[:3]],
               "drift": ck.cov.get("drift"), "drift_clauses": ck.cov.get("drift_clauses")}
        print(json.dumps(rec), flush=True)
        shutil.rmtree(ck.scratch, ignore_errors=True)


main()
