#!/venv/bin/python
"""Confirm every candidate in /tmp/wt/* and keep it under /verif/seeded/<id>/ (patch.diff, demo.py, NOTES.md, meta.json)."""
import json, os, shutil, subprocess, sys
root = "/tmp/wt"
suffix = ""
argv = sys.argv[1:]
if argv and argv[0] == "--wave2":
    root, suffix, argv = "/tmp/wt2", "_b", argv[1:]
if argv and argv[0] == "--wave3":
    root, suffix, argv = "/tmp/wt3", "_c", argv[1:]
if argv and argv[0] == "--wave4":
    root, suffix, argv = "/tmp/wt4", "_d", argv[1:]
if argv and argv[0] == "--wave5":
    root, suffix, argv = "/tmp/wt5", "_e", argv[1:]
if argv and argv[0] == "--wave6":
    root, suffix, argv = "/tmp/wt6", "_f", argv[1:]
if argv and argv[0] == "--wave7":
    root, suffix, argv = "/tmp/wt7", "_g", argv[1:]
if argv and argv[0] == "--wave8":
    root, suffix, argv = "/tmp/wt8", "_h", argv[1:]
ids = argv or [f"C{i:02d}" for i in range(1, 21)]
extra = {"C12": "C11,C12", "C02": "C02,C06", "C06": "C06,C02", "C01": "C01,C05,C15", "C05": "C05,C15", "C15": "C15", "C20": "C20,C05"}
for pid in ids:
    src = f"{root}/{pid}"
    if not os.path.exists(f"{src}/patch.diff"):
        print(pid, "no patch"); continue
    r = subprocess.run(["/verif/tools/try_seed.py", pid, "--src", src, "--checks", extra.get(pid, pid)], capture_output=True, text=True)
    try:
        res = json.loads(r.stdout[r.stdout.index("{"):])
    except Exception:
        print(pid, "tool failed", r.stdout[-500:], r.stderr[-500:]); continue
    ok = res["patch_applies"] and res["demo_clean_exit"] == 0 and res["demo_patched_exit"] != 0 and res.get("suite", "").startswith("1213 passed")
    caught = [c for c, v in res["checks"].items() if v["exit"] == 1]
    print(pid, "confirmed" if ok else "NOT CONFIRMED", "caught by", caught, res.get("suite"))
    if ok:
        dst = f"/verif/seeded/{pid}{suffix}"
        os.makedirs(dst, exist_ok=True)
        for f in ("patch.diff", "demo.py", "NOTES.md"):
            if os.path.exists(f"{src}/{f}"):
                shutil.copy(f"{src}/{f}", f"{dst}/{f}")
        notes = open(f"{src}/NOTES.md").read() if os.path.exists(f"{src}/NOTES.md") else ""
        meta = {"property": pid, "origin": "independent sub-agent given only the property text and a scratch worktree",
                "needs": notes.strip().splitlines()[0:1], "base_commit": subprocess.run(["git", "-C", "/repo", "rev-parse", "HEAD"], capture_output=True, text=True).stdout.strip(),
                "confirmed": {"patch_applies": True, "demo_passes_on_clean_tree": True, "demo_fails_with_patch": True, "suite_with_patch": res.get("suite")},
                "ran": f"tools/try_seed.py {pid} --checks {extra.get(pid, pid)}",
                "detected_by": {c: {"violations": v["violations"], "clauses": v["clauses"]} for c, v in res["checks"].items() if v["exit"] == 1},
                "not_detected_by": [c for c, v in res["checks"].items() if v["exit"] == 0]}
        json.dump(meta, open(f"{dst}/meta.json", "w"), indent=1)
