#!/venv/bin/python
"""Demonstrate the binding recorded execution <-> specification, property by property.

For every property the quick check is run with each applicable mutator of vlib/mutate.py: every recorded trace is
corrupted in ONE way after the real library produced it and before TLC validates it.  The run must then report
violations of that property (exit 1); a mutator that goes unreported for a property listed in EXPECT means that
the clauses of the property do not constrain the corrupted fact any more (vacuity) and fails the self-test.

    tools/selftest.py [C01 C08 ...] [--jobs 4]

Writes /verif/selftest/RESULTS.json (committed; not evidence) and prints a table.  Exit 0 iff every expected
detection happened and no run had a machinery failure.
"""
import argparse
import json
import os
import subprocess
import sys
from concurrent.futures import ThreadPoolExecutor

VERIF = os.path.dirname(os.path.dirname(os.path.abspath(__file__)))

# mutators that the property's OWN clauses must report (the facts the property talks about)
EXPECT = {
    "C01": ["charge", "dual", "label", "subsize"],
    "C02": ["value", "charge", "drop_block", "scalar"],
    "C03": ["value", "phase", "label", "drop_block"],
    "C04": ["value:-1", "phase:-1", "label:-1"],
    "C05": ["value", "subextent", "subsize", "drop_block", "dual"],
    "C06": ["value", "drop_block"],
    "C07": ["value", "plan", "charge"],
    "C08": ["value", "scalar", "drop_block", "frame"],
    "C09": ["value", "phase", "scalar"],
    "C10": ["value", "phase", "scalar", "label"],
    "C11": ["value@qr.0", "value@qr.1", "value@svd.0", "value@svd.2", "value@eigh.1", "value@solve.0", "dual", "leaf@observe"],
    "C12": ["value@svd.1", "value@eigh.0", "value@solve.0", "leaf@observe/what=spectrum", "leaf@observe/what=eigvals",
            "leaf@observe/what=solution"],
    "C13": ["value@svd_truncated.0", "value@svd_truncated.1", "value@svd_truncated.2", "drop_block@svd_truncated.1", "scalar"],
    "C14": ["frame", "value"],
    "C15": ["value", "thread_error", "thread_size"],
    "C16": ["value", "charge", "dual", "drop_block"],
    "C17": ["leaf"],
    "C18": ["value", "leaf"],
    "C19": ["value", "leaf"],
    "C20": ["dtype"],
}


def one(job):
    pid, mut = job
    env = dict(os.environ, VERIF_SELFTEST=mut)
    p = subprocess.run([os.path.join(VERIF, "check"), pid, "--tier", "quick"], cwd=VERIF, env=env,
                       capture_output=True, text=True)
    rec = {"property": pid, "mutator": mut, "exit": p.returncode}
    for line in p.stdout.splitlines():
        if line.startswith("SELFTEST "):
            rec.update(json.loads(line[9:]))
    if p.returncode == 2:
        rec["stderr"] = p.stderr[-1500:]
    return rec


def main():
    ap = argparse.ArgumentParser()
    ap.add_argument("pids", nargs="*")
    ap.add_argument("--jobs", type=int, default=4)
    a = ap.parse_args()
    pids = [p.upper() for p in a.pids] or sorted(EXPECT)
    jobs = [(p, m) for p in pids for m in EXPECT[p]]
    with ThreadPoolExecutor(a.jobs) as ex:
        res = list(ex.map(one, jobs))
    ok = True
    for r in res:
        own = [c for c in r.get("clauses", []) if c.startswith(r["property"] + ".")]
        r["detected"] = r["exit"] == 1 and bool(own)
        status = "detected" if r["detected"] else ("MACHINERY" if r["exit"] == 2 else "NOT DETECTED")
        ok &= r["detected"]
        print(f"{r['property']} {r['mutator']:<11} {status:<13} traces corrupted {r.get('mutated_traces', '?'):>5} "
              f"reported {r.get('violating_traces', '?'):>5}  {', '.join(own[:4])}{' ...' if len(own) > 4 else ''}")
    os.makedirs(os.path.join(VERIF, "selftest"), exist_ok=True)
    path = os.path.join(VERIF, "selftest", "RESULTS.json")
    old = {}
    if os.path.exists(path):
        old = {(r["property"], r["mutator"]): r for r in json.load(open(path))["results"]}
    for r in res:
        r.pop("stderr", None) if r["detected"] else None
        old[(r["property"], r["mutator"])] = r
    with open(path, "w") as f:
        json.dump({"note": "tools/selftest.py: one corruption per recorded trace; the property's own clauses must report it",
                   "results": [old[k] for k in sorted(old)]}, f, indent=1, sort_keys=True)
    sys.exit(0 if ok else 1)


main()
