"""Self-test of the binding between recorded executions and the specification.

A mutator corrupts ONE thing in each recorded trace (after the real library produced it, before TLC sees it) the
way a defective library would have produced it: a wrong element, a wrong dtype, a touched operand ...  The
corruption is applied consistently to the register in all later events of the trace (as long as the register still
holds the same value), so that only the clauses that talk about the corrupted fact can fail.

Used by tools/selftest.py through the environment variable VERIF_SELFTEST=<mutator>; never active in a
registered check (Check.finish refuses to write evidence while it is set).
"""
import copy
import json

SKIP_OPS = {"init", "rel", "observe", "set_cache", "set_default_mode"}


def _is_arr(v):
    return isinstance(v, dict) and v.get("t") in ("array", "vector")


def _sig(v):
    """Identity of a register value (to follow it through later events)."""
    return json.dumps(v, sort_keys=True)


def _first_exact_block(v):
    for b in v.get("blocks", []):
        if b.get("exact") and b.get("data"):
            return b
    return None


# --- the corruptions: each takes the register value and returns a corrupted copy or None if not applicable ---
def m_value(v):
    if not _is_arr(v):
        return None
    w = copy.deepcopy(v)
    b = _first_exact_block(w)
    if b is None:
        return None
    b["data"][0][0] += 1
    b["h"] = (b.get("h", 0) + 1) % (2 ** 30)
    return w


def m_scalar(v):
    if isinstance(v, dict) and v.get("t") == "scalar" and v.get("exact"):
        w = copy.deepcopy(v)
        w["v"][0] += 1
        return w
    if isinstance(v, dict) and v.get("t") == "dense" and v.get("exact") and v.get("data"):
        w = copy.deepcopy(v)
        w["data"][0][0] += 1
        return w
    return None


def m_dtype(v):
    if not _is_arr(v) or not v.get("blocks"):
        return None
    w = copy.deepcopy(v)
    for b in w["blocks"]:
        b["dt"] = {"float64": "float32", "float32": "float64", "complex128": "complex64",
                   "complex64": "complex128"}.get(b["dt"], "float32")
    return w


def m_charge(v):
    if not (isinstance(v, dict) and v.get("t") == "array"):
        return None
    w = copy.deepcopy(v)
    w["charge"][0] += 1
    return w


def m_dual(v):
    if not (isinstance(v, dict) and v.get("t") == "array") or not v.get("ix"):
        return None
    w = copy.deepcopy(v)
    w["ix"][0]["dual"] = not w["ix"][0]["dual"]
    return w


def m_drop_block(v):
    if not _is_arr(v) or len(v.get("blocks", [])) < 1:
        return None
    w = copy.deepcopy(v)
    # only a block that holds something (dropping a zero block is not observable in the denotation)
    for k in range(len(w["blocks"]) - 1, -1, -1):
        b = w["blocks"][k]
        if b.get("exact") and any(x != [0, 0] for x in b.get("data", [])):
            s = b["s"]
            del w["blocks"][k]
            w["phases"] = [p for p in w.get("phases", []) if p["s"] != s] if "phases" in w else []
            if "phases" not in v:
                w.pop("phases", None)
            return w
    return None


def m_phase(v):
    """Toggle a pending sign on a stored non-zero block of a fermionic array."""
    if not (isinstance(v, dict) and v.get("t") == "array" and v.get("kind") == "fermionic"):
        return None
    w = copy.deepcopy(v)
    for b in w["blocks"]:
        if b.get("exact") and any(x != [0, 0] for x in b.get("data", [])):
            s = b["s"]
            if any(p["s"] == s for p in w["phases"]):
                w["phases"] = [p for p in w["phases"] if p["s"] != s]
            else:
                w["phases"].append({"s": s, "p": -1})
            return w
    return None


def m_label(v):
    if not (isinstance(v, dict) and v.get("t") == "array" and v.get("kind") == "fermionic"):
        return None
    w = copy.deepcopy(v)
    w["oddpos"] = w["oddpos"] + [{"label": 777, "dual": False}]
    return w


def m_subextent(v):
    """Shift the recorded size of one piece of a fused index (a wrong relocation map)."""
    if not (isinstance(v, dict) and v.get("t") == "array"):
        return None
    w = copy.deepcopy(v)
    for ix in w["ix"]:
        for sub in ix.get("sub", []):
            for e in sub["ext"]:
                if len(e["subs"]) >= 2:
                    e["subs"][0], e["subs"][1] = e["subs"][1], e["subs"][0]
                    if e["subs"][0]["d"] != e["subs"][1]["d"] or True:
                        return w
    return None


def m_subsize(v):
    """One piece of a fused index is recorded one larger than it is (pieces no longer tile the charge)."""
    if not (isinstance(v, dict) and v.get("t") == "array"):
        return None
    w = copy.deepcopy(v)
    for ix in w["ix"]:
        for sub in ix.get("sub", []):
            for e in sub["ext"]:
                if e["subs"]:
                    e["subs"][0]["d"] += 1
                    return w
    return None


def m_plan(v):
    """calc_reshape_args table: the first axis number inside the returned plan is off by one."""
    if not (isinstance(v, dict) and "plan" in v):
        return None
    w = copy.deepcopy(v)

    def rec(x):
        it = [(k, x[k]) for k in sorted(x)] if isinstance(x, dict) else list(enumerate(x))
        for i, y in it:
            if isinstance(y, int) and not isinstance(y, bool):
                x[i] += 1
                return True
            if isinstance(y, (list, dict)) and rec(y):
                return True
        return False

    return w if rec(w["plan"]) else None


def m_leaf(v):
    """First integer leaf of a projected table / observation (not an array)."""
    if not isinstance(v, dict) or v.get("t") in ("array", "vector", "scalar", "dense", "none", "raise", "str"):
        return None
    w = copy.deepcopy(v)

    def rec(x):
        if isinstance(x, dict):
            for k in sorted(x):
                if k in ("t", "ids", "h", "info"):
                    continue
                if isinstance(x[k], bool):
                    x[k] = not x[k]
                    return True
                if isinstance(x[k], int):
                    x[k] += 1
                    return True
                if rec(x[k]):
                    return True
        elif isinstance(x, list):
            for i, y in enumerate(x):
                if isinstance(y, bool):
                    x[i] = not y
                    return True
                if isinstance(y, int):
                    x[i] += 1
                    return True
                if rec(y):
                    return True
        return False

    return w if rec(w) else None


RESULT_MUTATORS = {"value": m_value, "scalar": m_scalar, "dtype": m_dtype, "charge": m_charge, "dual": m_dual,
                   "drop_block": m_drop_block, "phase": m_phase, "label": m_label, "subextent": m_subextent, "subsize": m_subsize, "plan": m_plan,
                   "leaf": m_leaf}


def _targets(ev):
    t = set(ev.get("out", []))
    if ev.get("args", {}).get("inplace") and ev.get("in"):
        t.add(ev["in"][0])
    if ev.get("op") in ("fill_missing_blocks", "drop_missing_blocks", "iadd", "isub", "imul", "itruediv", "ipow",
                        "ismul", "isdiv") and ev.get("in"):
        t.add(ev["in"][0])
    return t


def mutate_trace(events, kind, which=0):
    """events: the events of one trace in order.  Returns (events, description or None).
    kind = mutator[@op[.k]] : only results of operation `op` (only its k-th output, 0-based)."""
    kind, _, sel = kind.partition("@")
    sel, _, argsel = sel.partition("/")
    only_op, _, only_k = sel.partition(".")
    only_k = int(only_k) if only_k else None
    if argsel:
        # kind@op/key=value : only events whose argument record has that (string) value
        ak, _, av = argsel.partition("=")
        events_ok = lambda ev: str(ev.get("args", {}).get(ak)) == av  # noqa
    else:
        events_ok = lambda ev: True  # noqa
    skip = SKIP_OPS - ({"observe"} if kind == "leaf" or only_op == "observe" else set())
    if kind in ("thread_error", "thread_size"):
        # the recorded outcome of a forced schedule: an exception escaped / the cache outgrew its bound
        for ev in events:
            if ev["op"] == "threads_run":
                if kind == "thread_error":
                    ev["args"]["errors"] = ev["args"]["errors"] + [[1, "KeyError"]]
                else:
                    ev["args"]["final_size"] += 7
                return events, f"{kind}: threads_run (seq {ev['seq']})"
        return events, None
    if kind == "frame":
        # an operand that is not a target of the call changes under the call
        for k, ev in enumerate(events):
            if ev["op"] in SKIP_OPS or ev.get("outcome") != "ok" or (only_op and ev["op"] != only_op):
                continue
            for r in ev.get("in", []):
                if r in _targets(ev) or r not in ev["regs"]:
                    continue
                w = m_value(ev["regs"][r])
                if w is None:
                    continue
                sig = _sig(ev["regs"][r])
                for later in events[k:]:
                    if r in later["regs"] and _sig(later["regs"][r]) == sig:
                        later["regs"][r] = copy.deepcopy(w)
                return events, f"frame: operand {r} of {ev['op']} (seq {ev['seq']}) changed under the call"
        return events, None
    fn = RESULT_MUTATORS[kind]
    seen = 0
    last = None
    for k, ev in enumerate(events):
        if ev["op"] in skip or ev.get("outcome") != "ok" or (only_op and ev["op"] != only_op) or not events_ok(ev):
            continue
        for pos, r in enumerate(ev.get("out", [])):
            if r not in ev["regs"] or (only_k is not None and pos != only_k):
                continue
            w = fn(ev["regs"][r])
            if w is None:
                continue
            if which < 0:
                last = (k, r, w)
                continue
            if seen < which:
                seen += 1
                continue
            return _apply(events, k, r, w, kind)
    if which < 0 and last is not None:
        return _apply(events, last[0], last[1], last[2], kind)
    return events, None


def _apply(events, k, r, w, kind):
    ev = events[k]
    sig = _sig(ev["regs"][r])
    for later in events[k:]:
        if r in later["regs"] and _sig(later["regs"][r]) == sig:
            later["regs"][r] = copy.deepcopy(w)
    return events, f"{kind}: result {r} of {ev['op']} (seq {ev['seq']})"


def mutate_shard(path, kind, which=0):
    """Rewrite one shard in place; returns {tid: what was corrupted}."""
    traces, order = {}, []
    with open(path) as f:
        for line in f:
            ev = json.loads(line)
            if ev["tid"] not in traces:
                traces[ev["tid"]] = []
                order.append(ev["tid"])
            traces[ev["tid"]].append(ev)
    n = {}
    with open(path, "w") as f:
        for tid in order:
            evs, what = mutate_trace(traces[tid], kind, which)
            if what is not None:
                n[tid] = what
            for ev in evs:
                f.write(json.dumps(ev, separators=(",", ":")) + "\n")
    return n
