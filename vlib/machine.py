"""Model-check Machine.tla (Impl |= Props on a bounded instance) and turn the programs
TLC prints into harness programs (spec -> code)."""
import os

from . import runner

CFG = """SPECIFICATION Spec
CONSTANTS
  Sym = "{sym}"
  Kind = "{kind}"
  IxPool <- {pool}
  MaxRank = {rank}
  MaxDepth = {depth}
  OpSet <- {ops}
  SampleMod = {mod}
  SampleSeed = {seed}
INVARIANT AllPropertiesHold
INVARIANT AllValid
INVARIANT RouteIndependent
INVARIANT Export
CHECK_DEADLOCK FALSE
"""


def _desc(d, sym, kind):
    d = dict(d)
    ix = [{"dual": dict(i)["dual"], "cm": [{"c": list(dict(e)["c"]), "d": dict(e)["d"]} for e in dict(i)["cm"]]}
          for i in d["ix"]]
    return {"kind": kind, "cls": "dynamic" if sym == "Z4" else "static", "sym": sym, "charge": list(d["charge"]),
            "ix": ix, "drop": sorted(d["drop"]), "dtype": "float64",
            "fill": {"start": d["start"], "step": 1, "alt": True}, "phases": sorted(d["phases"]), "oddpos": d["oddpos"]}


def _plain(v):
    if isinstance(v, (tuple, list)):
        return [_plain(x) for x in v]
    if isinstance(v, (set, frozenset)):
        return sorted(_plain(x) for x in v)
    if isinstance(v, dict):
        return {k: _plain(x) for k, x in v.items()}
    return v


def to_program(hist, sym, kind, tid):
    inputs, steps = {}, []
    for st in hist:
        st = dict(st)
        if st["op"] == "new" and "vdesc" in st:
            vd = dict(st["vdesc"])
            inputs[st["out"][0]] = {"kind": "vector", "sym": sym, "dtype": "float64",
                                    "blocks": [{"c": list(dict(e)["c"]), "d": dict(e)["d"]} for e in vd["blocks"]],
                                    "fill": {"start": vd["start"], "step": 1, "alt": True}}
        elif st["op"] == "new":
            inputs[st["out"][0]] = _desc(st["desc"], sym, kind)
        else:
            args = _plain(dict(st["args"]))
            args.pop("x", None)
            if st["op"] == "einsum":
                args["eq"] = "".join(chr(96 + c) for c in args["lhs"]) + "->" + "".join(chr(96 + c) for c in args["rhs"])
            steps.append({"op": st["op"], "in": list(st["in"]), "out": list(st["out"]), "args": args,
                          "entry": st.get("entry", "method")})
    return {"tid": tid, "inputs": inputs, "steps": steps, "model_descs": True}


def run_machine(ck, sym, kind, pool, ops, rank=2, depth=3, mod=50, tids=None, timeout=1500):
    cfg = os.path.join(ck.scratch, f"MC_Machine_{sym}_{kind}_{ops}_{depth}.cfg")
    with open(cfg, "w") as f:
        f.write(CFG.format(sym=sym, kind=kind, pool=pool, rank=rank, depth=depth, ops=ops, mod=mod,
                           seed=ck.seed % max(mod, 1)))
    r, st = ck.model("MC_Machine.tla", cfg, workers=runner.NCPU, timeout=timeout, heap="12g")
    progs = []
    seen = set()
    for v in runner.parse_tagged(r["out"], "PROG"):
        key = runner._freeze(v[1])
        if key in seen:
            continue
        seen.add(key)
        progs.append(to_program(v[1], sym, kind, tids() if tids else len(progs) + 1))
    ck.cov.setdefault("machine_programs_exported", 0)
    ck.cov["machine_programs_exported"] += len(progs)
    return progs
