"""Model-check Machine.tla (Impl |= Props on a bounded instance) and turn the programs
TLC prints into harness programs (spec -> code)."""
import os

from . import runner

CFG = """SPECIFICATION Spec
CONSTANTS
  Sym = "{sym}"
  Kind = "{kind}"
  IxPool <- {pool}
  MaxRank = {rank}
  MaxDepth = {depth}
  OpSet <- {ops}
  SampleMod = {mod}
  SampleSeed = {seed}
  Ignore = {ignore}
INVARIANT AllPropertiesHold
{invariants}
INVARIANT Export
CHECK_DEADLOCK FALSE
"""
# state invariants of the machine besides "no transition fails a clause", and the property each belongs to
STATE_INVARIANTS = {"AllValid": "C01", "RouteIndependent": "C04", "ReshapeRoundTrip": "C07"}



def _desc(d, sym, kind):
    d = dict(d)
    ix = [{"dual": dict(i)["dual"], "cm": [{"c": list(dict(e)["c"]), "d": dict(e)["d"]} for e in dict(i)["cm"]]}
          for i in d["ix"]]
    return {"kind": kind, "cls": "dynamic" if sym == "Z4" else "static", "sym": sym, "charge": list(d["charge"]),
            "ix": ix, "drop": sorted(d["drop"]), "dtype": "float64",
            "fill": {"start": d["start"], "step": 1, "alt": True}, "phases": sorted(d["phases"]), "oddpos": d["oddpos"]}


def _plain(v):
    if isinstance(v, (tuple, list)):
        return [_plain(x) for x in v]
    if isinstance(v, (set, frozenset)):
        return sorted(_plain(x) for x in v)
    if isinstance(v, dict):
        return {k: _plain(x) for k, x in v.items()}
    return v


def to_program(hist, sym, kind, tid):
    inputs, steps = {}, []
    for st in hist:
        st = dict(st)
        if st["op"] == "new" and "vdesc" in st:
            vd = dict(st["vdesc"])
            inputs[st["out"][0]] = {"kind": "vector", "sym": sym, "dtype": "float64",
                                    "blocks": [{"c": list(dict(e)["c"]), "d": dict(e)["d"]} for e in vd["blocks"]],
                                    "fill": {"start": vd["start"], "step": 1, "alt": True}}
        elif st["op"] == "new":
            inputs[st["out"][0]] = _desc(st["desc"], sym, kind)
        else:
            args = _plain(dict(st["args"]))
            args.pop("x", None)
            if st["op"] == "einsum":
                args["eq"] = "".join(chr(96 + c) for c in args["lhs"]) + "->" + "".join(chr(96 + c) for c in args["rhs"])
            steps.append({"op": st["op"], "in": list(st["in"]), "out": list(st["out"]), "args": args,
                          "entry": st.get("entry", "method")})
    return {"tid": tid, "inputs": inputs, "steps": steps, "model_descs": True}


def _counterexample(out):
    """hist and bad of the last state of the error trace TLC printed."""
    import re

    def last(name):
        k = out.rfind("/\\ " + name + " = ")
        if k < 0:
            return None
        try:
            v, _ = runner._parse_value(out, k + len("/\\ " + name + " = "))
            return v
        except (ValueError, IndexError):
            return None

    return last("hist"), last("bad")


def run_machine(ck, sym, kind, pool, ops, rank=2, depth=3, mod=50, tids=None, timeout=1500):
    """Model-check one instance.  When TLC finds a behaviour of the implementation-shaped model that fails a clause
    of THIS check's property (or its state invariant), the behaviour is exported like any other program and replayed:
    the real trace then fails the same clause (a VIOLATION) - or it does not, which means the model misdescribes the
    code (reported as a machinery problem, never as a violation).  Clauses of other properties are put on the
    Ignore list and the instance is run again, so that one defect does not hide the exploration for this property."""
    cfg = os.path.join(ck.scratch, f"MC_Machine_{sym}_{kind}_{ops}_{depth}.cfg")
    ignore, invs = set(), dict(STATE_INVARIANTS)
    progs, seen = [], set()

    def add(hist, expect=None):
        key = runner._freeze(hist)
        if key in seen:
            return None
        seen.add(key)
        p = to_program(hist, sym, kind, tids() if tids else len(progs) + 1)
        if expect is not None:
            ck.expect_violation[p["tid"]] = expect
        progs.append(p)
        return p

    for attempt in range(8):
        with open(cfg, "w") as f:
            f.write(CFG.format(sym=sym, kind=kind, pool=pool, rank=rank, depth=depth, ops=ops, mod=mod,
                               seed=ck.seed % max(mod, 1),
                               ignore="{" + ", ".join('"%s"' % c for c in sorted(ignore)) + "}",
                               invariants="\n".join("INVARIANT " + n for n in invs)))
        r, st = ck.model("MC_Machine.tla", cfg, workers=runner.NCPU, timeout=timeout, heap="12g", expect_ok=False)
        for v in runner.parse_tagged(r["out"], "PROG"):
            add(v[1])
        if st["ok"] or r["timed_out"] or getattr(ck, "selftest", ""):
            break
        out = r["out"]
        m = [n for n in ["AllPropertiesHold"] + list(invs) if f"Invariant {n} is violated" in out]
        if not m:
            ck.problems.append(f"model MC_Machine.tla/{cfg} did not pass:\n" + runner.tlc_error_summary(out, 30))
            break
        hist, bad = _counterexample(out)
        if hist is None:
            ck.problems.append(f"model MC_Machine.tla/{cfg}: could not read the counterexample")
            break
        if m[0] == "AllPropertiesHold":
            clauses = sorted(bad or [])
            own = [c for c in clauses if c.startswith(ck.pid + ".")]
            ck.cov.setdefault("model_counterexamples", []).append({"instance": os.path.basename(cfg), "clauses": clauses})
            if own:
                add(hist, expect=own)
                break
            ignore |= set(clauses)
        else:
            ck.cov.setdefault("model_counterexamples", []).append({"instance": os.path.basename(cfg), "invariant": m[0]})
            if invs[m[0]] == ck.pid:
                add(hist, expect=[m[0]])
                break
            del invs[m[0]]
    ck.cov.setdefault("machine_programs_exported", 0)
    ck.cov["machine_programs_exported"] += len(progs)
    return progs
