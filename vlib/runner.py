"""Shared machinery of the checks: TLC invocations, replay of programs into
the real library, trace validation, verdict triage, evidence files."""

import fnmatch
import json
import os
import re
import shutil
import subprocess
import sys
import tempfile
import time
import zlib
from concurrent.futures import ThreadPoolExecutor

VERIF = os.path.dirname(os.path.dirname(os.path.abspath(__file__)))
SPEC = os.path.join(VERIF, "spec")
REPO = os.environ.get("VERIF_REPO", "/repo")
PY = "/venv/bin/python"
JAVA_CP = "/opt/veriftools/tla/tla2tools.jar:/opt/veriftools/tla/CommunityModules-deps.jar"
NCPU = min(16, os.cpu_count() or 4)


class Machinery(Exception):
    """The verification machinery itself failed (exit 2, never a violation)."""


def tlc_cmd(module, cfg, metadir, workers=1, heap="3g", extra=(), gc="-XX:+UseSerialGC"):
    return [
        "java", f"-Xmx{heap}", gc, "-Xss16m", "-cp", JAVA_CP, "tlc2.TLC",
        "-workers", str(workers), "-metadir", metadir, "-noGenerateSpecTE",
        "-config", cfg, *extra, module,
    ]


def run_tlc(module, cfg, scratch, workers=1, env=None, heap="3g", extra=(), timeout=3600):
    metadir = tempfile.mkdtemp(prefix="meta", dir=scratch)
    e = dict(os.environ)
    e.update(env or {})
    gc = "-XX:+UseParallelGC" if workers != 1 else "-XX:+UseSerialGC"
    t0 = time.time()
    try:
        p = subprocess.run(
            tlc_cmd(module, cfg, metadir, workers, heap, extra, gc),
            cwd=SPEC, env=e, capture_output=True, text=True, timeout=timeout,
        )
        out, rc, timed_out = p.stdout + p.stderr, p.returncode, False
    except subprocess.TimeoutExpired as ex:
        out = (ex.stdout or b"").decode("utf8", "replace") if isinstance(ex.stdout, bytes) else (ex.stdout or "")
        rc, timed_out = -9, True
    shutil.rmtree(metadir, ignore_errors=True)
    return {"rc": rc, "out": out, "wall": time.time() - t0, "timed_out": timed_out}


STATS_RE = re.compile(r"(\d+) states generated, (\d+) distinct states found, (\d+) states left on queue")
DEPTH_RE = re.compile(r"The depth of the complete state graph search is (\d+)")


def tlc_stats(out):
    m = None
    for m in STATS_RE.finditer(out):
        pass
    st = {"generated": 0, "distinct": 0, "queue": 0, "depth": 0}
    if m:
        st.update(generated=int(m.group(1)), distinct=int(m.group(2)), queue=int(m.group(3)))
    d = DEPTH_RE.search(out)
    if d:
        st["depth"] = int(d.group(1))
    st["ok"] = "Model checking completed. No error has been found." in out
    return st


def tlc_error_summary(out, n=25):
    lines = out.splitlines()
    for i, ln in enumerate(lines):
        if ln.startswith("Error:"):
            return "\n".join(lines[i : i + n])
    return "\n".join(lines[-n:])


# ---------------------------------------------------------------------------
# parsing of TLA+ values printed by TLC (tuples, sets, strings, ints, booleans)

def _parse_value(s, i):
    n = len(s)
    while i < n and s[i].isspace():
        i += 1
    if s.startswith("<<", i):
        i += 2
        items = []
        while True:
            while i < n and s[i].isspace():
                i += 1
            if s.startswith(">>", i):
                return items, i + 2
            v, i = _parse_value(s, i)
            items.append(v)
            while i < n and s[i].isspace():
                i += 1
            if i < n and s[i] == ",":
                i += 1
    if s[i] == "{":
        i += 1
        items = []
        while True:
            while i < n and s[i].isspace():
                i += 1
            if s[i] == "}":
                return set(map(_freeze, items)), i + 1
            v, i = _parse_value(s, i)
            items.append(v)
            while i < n and s[i].isspace():
                i += 1
            if i < n and s[i] == ",":
                i += 1
    if s[i] == "[":
        # record [a |-> v, ...]  (functions over other domains print as (k :> v @@ ...), not used here)
        i += 1
        rec = {}
        while True:
            while i < n and s[i].isspace():
                i += 1
            if s[i] == "]":
                return rec, i + 1
            m = re.compile(r"(\w+)\s*\|->").match(s, i)
            if not m:
                raise ValueError(f"cannot parse record at {s[i:i+40]!r}")
            v, i = _parse_value(s, m.end())
            rec[m.group(1)] = v
            while i < n and s[i].isspace():
                i += 1
            if i < n and s[i] == ",":
                i += 1
    if s[i] == '"':
        j = i + 1
        buf = []
        while s[j] != '"':
            if s[j] == "\\":
                j += 1
            buf.append(s[j])
            j += 1
        return "".join(buf), j + 1
    m = re.compile(r"-?\d+|TRUE|FALSE").match(s, i)
    if m:
        t = m.group(0)
        return (t == "TRUE") if t in ("TRUE", "FALSE") else int(t), m.end()
    raise ValueError(f"cannot parse TLA+ value at {s[i:i+40]!r}")


def _freeze(v):
    if isinstance(v, list):
        return tuple(_freeze(x) for x in v)
    if isinstance(v, dict):
        return tuple(sorted((k, _freeze(x)) for k, x in v.items()))
    if isinstance(v, set):
        return frozenset(v)
    return v


def parse_tagged(out, tag):
    """All printed tuples <<"tag", ...>> in TLC output (TLC wraps long values)."""
    res = []
    pat = re.compile(r'<<\s*"' + re.escape(tag) + '"')
    i = 0
    while True:
        m = pat.search(out, i)
        if not m:
            return res
        try:
            v, j = _parse_value(out, m.start())
        except (ValueError, IndexError):
            i = m.end()
            continue
        res.append(v)
        i = j


# ---------------------------------------------------------------------------

def shard_of(prog, nshards):
    key = prog.get("group", prog["tid"])
    if isinstance(key, int):
        return key % nshards
    return zlib.crc32(str(key).encode()) % nshards


def replay_programs(programs, scratch, nshards=NCPU, env=None):
    """Run programs against the real library.  Returns (shard event files, stats)."""
    nshards = max(1, min(nshards, len(programs)))
    files = [open(os.path.join(scratch, f"prog_{k:03d}.ndjson"), "w") for k in range(nshards)]
    counts = [0] * nshards
    for p in programs:
        k = shard_of(p, nshards)
        files[k].write(json.dumps(p, separators=(",", ":")) + "\n")
        counts[k] += 1
    for f in files:
        f.close()
    e = dict(os.environ)
    e.update({"PYTHONPATH": VERIF + os.pathsep + REPO, "PYTHONDONTWRITEBYTECODE": "1",
              "PYTHONHASHSEED": "0", "VERIF_REPO": REPO, "OMP_NUM_THREADS": "1",
              "OPENBLAS_NUM_THREADS": "1", "MKL_NUM_THREADS": "1"})
    e.update(env or {})

    def one(k):
        if not counts[k]:
            return None
        src = os.path.join(scratch, f"prog_{k:03d}.ndjson")
        dst = os.path.join(scratch, f"events_{k:03d}.ndjson")
        p = subprocess.run([PY, "-m", "harness.run_programs", src, dst], cwd=VERIF, env=e,
                           capture_output=True, text=True)
        if p.returncode != 0:
            raise Machinery(f"harness failed on shard {k}:\n{p.stderr[-3000:]}")
        return dst, json.loads(p.stdout.strip().splitlines()[-1])

    with ThreadPoolExecutor(NCPU) as ex:
        res = [r for r in ex.map(one, range(nshards)) if r]
    stats = {"programs": 0, "events": 0, "out_of_range": 0}
    for _, s in res:
        for k in stats:
            stats[k] += s[k]
    return [r[0] for r in res], stats


def validate_shards(shards, scratch, module="Trace.tla", cfg="Trace.cfg", timeout=3600):
    """TLC validates every shard; returns list of verdict dicts."""
    def one(path):
        n = sum(1 for _ in open(path))
        if n == 0:
            return path, [], None
        r = run_tlc(module, cfg, scratch, workers=1, env={"TRACE_FILE": path}, timeout=timeout)
        vs = parse_tagged(r["out"], "V")
        st = tlc_stats(r["out"])
        stats["states"] += st["distinct"]
        stats["transitions"] += st["generated"]
        if len(vs) != n or not st["ok"]:
            return path, vs, (f"TLC consumed {len(vs)} of {n} events of {path}\n"
                              + tlc_error_summary(r["out"], 40))
        return path, vs, None

    verdicts, problems = [], []
    stats = {"states": 0, "transitions": 0}
    validate_shards.last_stats = stats
    with ThreadPoolExecutor(NCPU) as ex:
        for path, vs, prob in ex.map(one, shards):
            for v in vs:
                verdicts.append({"tid": v[1], "seq": v[2], "op": v[3],
                                 "fails": sorted(v[4]), "drift": sorted(v[5]), "shard": path})
            if prob:
                problems.append(prob)
    return verdicts, problems


# ---------------------------------------------------------------------------
# known findings

def load_findings():
    path = os.path.join(VERIF, "known_findings.json")
    if not os.path.exists(path):
        return []
    return json.load(open(path)).get("findings", [])


def _subset(pat, val):
    if isinstance(pat, dict):
        return isinstance(val, dict) and all(k in val and _subset(v, val[k]) for k, v in pat.items())
    return pat == val


def match_finding(findings, pid, clause, event, features):
    """A finding names property, clause glob, op, an args subset and feature values."""
    for f in findings:
        if f.get("status") != "known":
            continue
        if f["property"] != pid:
            continue
        if not fnmatch.fnmatch(clause, f.get("clause", "*")):
            continue
        if "op" in f and f["op"] != event.get("op"):
            continue
        if "args" in f and not _subset(f["args"], event.get("args", {})):
            continue
        if "features" in f and not _subset(f["features"], features):
            continue
        return f
    return None


# ---------------------------------------------------------------------------

class Check:
    """Context of one property check run."""

    def __init__(self, pid, tier, seed, level="model_checking"):
        self.pid, self.tier, self.seed, self.level = pid, tier, seed, level
        self.t0 = time.time()
        base = os.environ.get("VERIF_SCRATCH", "/var/tmp")
        self.scratch = tempfile.mkdtemp(prefix=f"verif-{pid}-", dir=base)
        self.violations = []       # (clause, replay path, description)
        self.known = []            # KNOWN-FINDING lines
        self.problems = []         # machinery problems
        self.cov = {"states": 0, "transitions": 0, "traces_validated_against_impl": 0,
                    "samples": [], "events_validated": 0, "programs": 0,
                    "clauses_evaluated": {}, "drift": 0, "models": [], "exhaustive": False,
                    "out_of_range_skipped": 0}
        self.assumptions = []
        self.findings = load_findings()
        self.outdir = os.path.join(VERIF, "out", "replay", pid)
        # tools/selftest.py: corrupt every recorded trace in one way and expect the check to report it
        # programs exported from a model counterexample: tid -> clauses / invariant the model saw violated
        self.expect_violation = {}
        self.selftest = os.environ.get("VERIF_SELFTEST", "")
        if self.selftest:
            self.outdir = os.path.join(self.scratch, "replay")
            self.cov["selftest_mutated_traces"] = 0
            self.mutated = {}

    # -- model checking ---------------------------------------------------
    def model(self, module, cfg, workers=NCPU, timeout=1800, env=None, extra=(), heap="8g",
              expect_ok=True, simulate=None):
        if getattr(self, "selftest", "") and module in ("MC_Machine.tla", "MC_Oddpos.tla", "MC_TruncI.tla", "MC_LocalOps.tla"):
            # self-test of the trace binding: the pure models are not what is being tested
            return {"out": "", "wall": 0.0, "timed_out": False}, tlc_stats("")
        ex = list(extra)
        if simulate:
            ex += ["-simulate", simulate]
        r = run_tlc(module, cfg, self.scratch, workers=workers, env=env, heap=heap,
                    extra=ex, timeout=timeout)
        st = tlc_stats(r["out"])
        rec = {"module": module, "cfg": cfg, "states": st["distinct"], "transitions": st["generated"],
               "depth": st["depth"], "complete": st["ok"] and st["queue"] == 0 and not simulate,
               "wall_s": round(r["wall"], 2), "timed_out": r["timed_out"]}
        if simulate:
            rec["simulate"] = simulate
            rec["complete"] = False
            rec["ok"] = "Error:" not in r["out"]
        self.cov["models"].append(rec)
        self.cov["states"] += st["distinct"]
        self.cov["transitions"] += st["generated"]
        if expect_ok and not r["timed_out"] and not (st["ok"] or (simulate and "Error:" not in r["out"])):
            self.problems.append(f"model {module}/{cfg} did not pass:\n" + tlc_error_summary(r["out"], 30))
        return r, st

    # -- conformance ------------------------------------------------------
    def conform(self, programs, env=None, sample=2):
        """Replay programs into the real code and validate the traces with TLC."""
        if not programs:
            return []
        progs = {p["tid"]: p for p in programs}
        sub = tempfile.mkdtemp(prefix="conf", dir=self.scratch)
        shards, st = replay_programs(programs, sub, env=env)
        if self.selftest:
            from . import mutate
            kind, _, which = self.selftest.rpartition(":") if ":" in self.selftest else (self.selftest, "", "")
            for sh in shards:
                done = mutate.mutate_shard(sh, kind, int(which or 0))
                self.mutated.update(done)
                self.cov["selftest_mutated_traces"] += len(done)
        self._nonvacuity(shards)
        verdicts, problems = validate_shards(shards, sub)
        self.problems += problems
        ts = validate_shards.last_stats
        self.cov["trace_states"] = self.cov.get("trace_states", 0) + ts["states"]
        self.cov["states"] += ts["states"]
        self.cov["transitions"] += ts["transitions"]
        self.cov["programs"] += st["programs"]
        self.cov["out_of_range_skipped"] += st["out_of_range"]
        self.cov["events_validated"] += len(verdicts)
        tids = {v["tid"] for v in verdicts}
        self.cov["traces_validated_against_impl"] += len(tids)
        bad = {}
        for v in verdicts:
            self._count_drift(v)
            mine = [c for c in v["fails"] if c.startswith(self.pid + ".")]
            if mine:
                bad.setdefault(v["tid"], []).append((v, mine))
        for tid, lst in bad.items():
            self._triage(progs.get(tid), lst, shards)
        for tid, exp in self.expect_violation.items():
            if tid in progs:
                hit = [c for v, mine in bad.get(tid, []) for c in mine]
                if exp and exp[0] in STATE_INVARIANT_NAMES:
                    # a violated state invariant of the model has no clause name of its own in the trace: the model's
                    # final state is compared with the real one (drift) and the relation is re-stated below
                    self._state_invariant_cex(progs[tid], exp[0], [v for v in verdicts if v["tid"] == tid])
                elif not hit:
                    drift = [d for v in verdicts if v["tid"] == tid for d in v["drift"] if not d.startswith("L2+")]
                    self.problems.append(f"model counterexample (program {tid}, clauses {exp}) is not reproduced by the library"
                                         + (f": the model drifts from the code at {sorted(set(drift))}" if drift else ""))
        for p in programs[:sample]:
            if len(self.cov["samples"]) < 6:
                self.cov["samples"].append({"program": _brief(p)})
        return verdicts

    def suite_trace(self, intfill=False, select=None, limit=64):
        """Run the repository's own test suite with the tracing plugin (nothing in /repo is edited) and
        validate every recorded call.  The suite's own assertions are irrelevant here."""
        sub = tempfile.mkdtemp(prefix="suite", dir=self.scratch)
        out = os.path.join(sub, "suite.ndjson")
        e = dict(os.environ)
        e.update({"PYTHONPATH": VERIF + os.pathsep + REPO, "PYTHONDONTWRITEBYTECODE": "1", "PYTHONHASHSEED": "0",
                  "VERIF_TRACE_OUT": out, "VERIF_TRACE_INTFILL": "1" if intfill else "0", "VERIF_TRACE_LIMIT": str(limit),
                  "OMP_NUM_THREADS": "1", "OPENBLAS_NUM_THREADS": "1"})
        cmd = [PY, "-m", "pytest", "-q", "-p", "no:cacheprovider", "-p", "harness.pytest_trace_plugin",
               "--timeout=900", os.path.join(REPO, "tests")]
        if select:
            cmd += ["-k", select]
        p = subprocess.run(cmd, cwd=REPO, env=e, capture_output=True, text=True)
        tail = (p.stdout.strip().splitlines() or [""])[-1]
        if not os.path.exists(out):
            self.problems.append("tracing plugin produced no events:\n" + p.stdout[-2000:] + p.stderr[-2000:])
            return []
        # shard by program (tid), keeping the two events of a call together
        nsh = NCPU
        files = [open(os.path.join(sub, f"events_{k:03d}.ndjson"), "w") for k in range(nsh)]
        n = 0
        with open(out) as f:
            for line in f:
                tid = int(line[line.index('"tid":') + 6: line.index(",", line.index('"tid":'))])
                files[tid % nsh].write(line)
                n += 1
        for fh in files:
            fh.close()
        shards = [fh.name for fh in files if os.path.getsize(fh.name)]
        verdicts, problems = validate_shards(shards, sub)
        self.problems += problems
        ts = validate_shards.last_stats
        self.cov["states"] += ts["states"]
        self.cov["transitions"] += ts["transitions"]
        self.cov["trace_states"] = self.cov.get("trace_states", 0) + ts["states"]
        self.cov["events_validated"] += len(verdicts)
        self.cov["traces_validated_against_impl"] += len({v["tid"] for v in verdicts})
        self.cov.setdefault("suite_runs", []).append({"intfill": intfill, "pytest": tail, "events": n,
                                                      "calls": len({v["tid"] for v in verdicts})})
        bad = {}
        for v in verdicts:
            self._count_drift(v)
            mine = [c for c in v["fails"] if c.startswith(self.pid + ".")]
            if mine:
                bad.setdefault(v["tid"], []).append((v, mine))
        for tid, lst in bad.items():
            self._triage({"suite_call": tid}, lst, shards)
        return verdicts

    def _event_of(self, shard, tid, seq):
        with open(shard) as f:
            for line in f:
                if f'"tid":{tid},"seq":{seq},' in line:
                    return json.loads(line)
        return None

    def _triage(self, prog, lst, shards):
        os.makedirs(self.outdir, exist_ok=True)
        unknown = []
        for v, clauses in lst:
            ev = self._event_of(v["shard"], v["tid"], v["seq"]) or {"op": v["op"], "args": {}}
            feats = features_of(ev, prog)
            for c in clauses:
                f = match_finding(self.findings, self.pid, c, ev, feats)
                if f:
                    line = f"KNOWN-FINDING: property={self.pid} {f['id']}: {f['what']}"
                    if line not in self.known:
                        self.known.append(line)
                else:
                    unknown.append((c, v))
        if unknown:
            tid = lst[0][0]["tid"]
            path = os.path.join(self.outdir, f"prog_{tid}.json")
            with open(path, "w") as f:
                json.dump({"property": self.pid, "program": prog,
                           "failed": [{"clause": c, "seq": v["seq"], "op": v["op"]} for c, v in unknown]}, f)
            self.violations.append((sorted({c for c, _ in unknown}), path))

    def _state_invariant_cex(self, prog, name, verdicts):
        """The model violated a state invariant along this program.  If the real execution equals the model's (no
        drift), the real library violates it too: reported with the program as replay."""
        drift = sorted({d for v in verdicts for d in v["drift"] if not d.startswith("L2+")})
        if drift or not verdicts:
            self.problems.append(f"model counterexample to {name} (program {prog['tid']}) is not reproduced: drift {drift}")
            return
        os.makedirs(self.outdir, exist_ok=True)
        path = os.path.join(self.outdir, f"prog_{prog['tid']}.json")
        with open(path, "w") as f:
            json.dump({"property": self.pid, "program": prog, "failed": [{"clause": f"{self.pid}.model.{name}", "seq": -1, "op": "state"}]}, f)
        self.violations.append(([f"{self.pid}.model.{name}"], path))

    # -- wrap up ------------------------------------------------------------
    def _nonvacuity(self, shards):
        """coverage.result_nonzero[op] = [events whose first array result stores a non-zero element, events with an
        array result]: a driver whose results are mostly empty exercises little."""
        tab = self.cov.setdefault("result_nonzero", {})
        for sh in shards:
            with open(sh) as f:
                for line in f:
                    ev = json.loads(line)
                    if ev["op"] in ("init", "rel") or ev.get("outcome") != "ok" or not ev.get("out"):
                        continue
                    v = ev["regs"].get(ev["out"][0])
                    if not (isinstance(v, dict) and v.get("t") in ("array", "vector")):
                        continue
                    e = tab.setdefault(ev["op"], [0, 0])
                    e[1] += 1
                    if any(b.get("exact") is False or any(x != [0, 0] for x in b.get("data", [])) for b in v["blocks"]):
                        e[0] += 1

    def _count_drift(self, v):
        """L2: entries "L2+<op>" only say that the implementation-shaped prediction was computed for the
        event; everything else is a disagreement between prediction and code (never an alarm)."""
        pred = self.cov.setdefault("l2_predicted", {})
        for d in v["drift"]:
            if d.startswith("L2+"):
                pred[d[3:]] = pred.get(d[3:], 0) + 1
            else:
                self.cov["drift"] += 1
                self.cov.setdefault("drift_clauses", {}).setdefault(d, 0)
                self.cov["drift_clauses"][d] += 1

    def finish(self):
        wall = time.time() - self.t0
        cov = self.cov
        cov["rule"] = cov.get("rule", "")
        cov["states_note"] = ("states/transitions = distinct states / states generated reported by TLC, summed over the model "
                              "instances (coverage.models) and the trace-validation runs (coverage.trace_states: one state per "
                              "validated event plus the initial state of each shard)")
        ev = {"property_id": self.pid, "tier": self.tier, "seed": self.seed, "level": self.level,
              "coverage": cov, "assumptions": self.assumptions, "wall_s": round(wall, 2),
              "violations": len(self.violations), "known_findings": self.known}
        if not cov["samples"]:
            cov["samples"] = [{"note": "no program sampled"}]
        if self.selftest:
            # a self-test run never writes evidence; it reports what the corrupted traces made fail
            clauses = sorted({c for cl, _ in self.violations for c in cl})
            reported = {int(os.path.basename(p)[5:-5]) for _, p in self.violations}
            missed = sorted(t for t in self.mutated if t not in reported)
            print("SELFTEST " + json.dumps({"property": self.pid, "mutator": self.selftest,
                                            "unreported": [[t, self.mutated[t]] for t in missed[:12]],
                                            "unreported_count": len(missed),
                                            "mutated_traces": cov.get("selftest_mutated_traces", 0),
                                            "violating_traces": len(self.violations), "clauses": clauses,
                                            "problems": len(self.problems),
                                            "problem_text": [str(p)[-1500:] for p in self.problems[:2]]}))
            shutil.rmtree(self.scratch, ignore_errors=True)
            return 2 if self.problems else (1 if self.violations else 0)
        # runs against a patched copy of the library (tools/try_seed.py) must not overwrite the evidence
        evdir = os.environ.get("VERIF_EVIDENCE_DIR") or os.path.join(VERIF, "evidence")
        os.makedirs(evdir, exist_ok=True)
        with open(os.path.join(evdir, f"{self.pid}.json"), "w") as f:
            json.dump(ev, f, indent=1, sort_keys=True, default=str)
        shutil.rmtree(self.scratch, ignore_errors=True)
        for line in self.known:
            print(line)
        if self.problems:
            for p in self.problems:
                print("MACHINERY:", p, file=sys.stderr)
            print(f"check {self.pid}: machinery failure ({len(self.problems)} problem(s))")
            return 2
        if self.violations:
            for clauses, path in self.violations:
                print(f"VIOLATION property={self.pid} replay={path} clauses={','.join(clauses)}")
            return 1
        print(f"check {self.pid} [{self.tier}] ok: {cov['states']} model states, "
              f"{cov['traces_validated_against_impl']} traces / {cov['events_validated']} events validated, "
              f"{round(wall, 1)} s")
        return 0


STATE_INVARIANT_NAMES = ("AllValid", "RouteIndependent", "ReshapeRoundTrip")


def _brief(p):
    q = {"tid": p["tid"], "steps": [{k: s[k] for k in ("op", "in", "out", "args") if k in s} for s in p.get("steps", [])]}
    q["inputs"] = {k: {kk: d[kk] for kk in ("kind", "sym", "charge", "drop", "dtype") if kk in d}
                   for k, d in p.get("inputs", {}).items()}
    return q


def features_of(ev, prog):
    """Cheap features of an event used to key known findings."""
    feats = {"op": ev.get("op"), "outcome": ev.get("outcome", "")}
    regs = ev.get("regs", {})
    ins = ev.get("in", [])
    if ins and ins[0] in regs and isinstance(regs[ins[0]], dict):
        x = regs[ins[0]]
        feats["kind"] = x.get("kind", x.get("t"))
        if isinstance(x.get("blocks"), list):
            feats["in0_has_blocks"] = bool(x["blocks"])
        ch = x.get("charge")
        if isinstance(ch, list) and len(ch) == 2:
            feats["in0_odd_charge"] = bool((ch[0] + ch[1]) % 2)
        feats["sym"] = x.get("sym", "")
        c = ev.get("args", {}).get("c")
        if isinstance(c, list) and len(c) == 2:
            feats["arg_c_odd"] = bool((c[0] + c[1]) % 2)
    return feats
