"""pytest plugin (loaded with ``-p harness.pytest_trace_plugin``, nothing in /repo is edited): records every
OUTERMOST public call the repository's own tests make as a two-event program

    init  (the operands as they were before the call)
    <op>  (operands after the call + results)

so that TLC can evaluate the property clauses on executions the suite already exercises (its own assertions are
irrelevant here).  Environment:

    VERIF_TRACE_OUT      ndjson file to append events to
    VERIF_TRACE_INTFILL  1: replace the random fill by small integers (value-level clauses become decidable;
                         some of the suite's own assertions then fail by construction - ignored)
    VERIF_TRACE_LIMIT    blocks with more elements are logged without data (default 64)
"""
import functools
import json
import os
import threading

_state = threading.local()
_out = None
_tid = [2_000_000]
_stats = {"calls": 0, "skipped": 0}


def _depth():
    return getattr(_state, "depth", 0)


def _emit(ev):
    _out.write(json.dumps(ev, separators=(",", ":")) + "\n")


def _letters(eq):
    lhs, rhs = eq.split("->")
    # codes keep the order of the characters (the fermionic einsum sorts traced letters by character)
    return [ord(c) - 96 for c in lhs], [ord(c) - 96 for c in rhs]


def _args_for(op, args, kwargs, objs):
    """Translate the python arguments of a call into the argument record the spec understands.
    Returns (op name, args) - an op name starting with 'x:' has only the generic clauses applied."""
    a = {}
    try:
        if kwargs.get("inplace"):
            a["inplace"] = True
        if op == "transpose":
            axes = args[0] if args else kwargs.get("axes")
            if axes is None:
                a["axes_none"] = True
            else:
                a["axes"] = [int(i) for i in axes]
            if "phase" in kwargs:
                a["phase"] = bool(kwargs["phase"])
        elif op in ("conj", "dagger"):
            for k in ("phase_permutation", "phase_dual"):
                if k in kwargs:
                    a[k] = bool(kwargs[k])
        elif op == "fuse":
            a["groups"] = [[int(i) for i in g] for g in args]
            if any(len(g) == 0 for g in a["groups"]):
                return "x:fuse", {"x": 0}
            if "mode" in kwargs:
                a["mode"] = kwargs["mode"]
        elif op == "unfuse":
            a["axis"] = int(args[0] if args else kwargs["axis"])
        elif op == "reshape":
            shape = args[0] if args else kwargs["newshape"]
            shape = [int(d) for d in shape]
            if any(d < 0 for d in shape):
                return "x:reshape", {"x": 0}
            a["newshape"] = shape
            a["back"] = True    # whether the target is reachable is the test's business, not a clause here
        elif op == "tensordot":
            axes = args[0] if args else kwargs.get("axes", 2)
            if isinstance(axes, int):
                a["naxes"] = int(axes)
            else:
                a["axes"] = [[int(i) for i in axes[0]], [int(i) for i in axes[1]]]
            if "mode" in kwargs:
                a["mode"] = "default" if kwargs["mode"] is None else kwargs["mode"]
            if kwargs.get("preserve_array"):
                a["preserve_array"] = True
        elif op == "squeeze":
            ax = args[0] if args else kwargs.get("axis")
            if ax is None:
                a["axis_none"] = True
            elif isinstance(ax, int):
                a["axis_int"] = int(ax)
            else:
                a["axis"] = [int(i) for i in ax]
        elif op == "expand_dims":
            a["axis"] = int(args[0] if args else kwargs["axis"])
            if len(args) > 1 or "c" in kwargs or "dual" in kwargs:
                return "x:expand_dims", {"x": 0}
        elif op == "multiply_diagonal":
            a["axis"] = int(args[-1] if len(args) > 1 else kwargs["axis"])
        elif op == "einsum":
            eq = args[0] if args else kwargs["eq"]
            a["eq"] = eq
            a["lhs"], a["rhs"] = _letters(eq)
            if kwargs.get("preserve_array"):
                a["preserve_array"] = True
        elif op == "phase_flip":
            a["axs"] = [int(i) for i in args]
        elif op == "phase_transpose":
            axes = args[0] if args else kwargs.get("axes")
            if axes is None:
                a["axes_none"] = True
            else:
                a["axes"] = [int(i) for i in axes]
        elif op == "qr":
            if kwargs.get("stabilized") or (args and args[0]):
                a["stabilized"] = True
        elif op == "svd_truncated":
            return "x:svd_truncated", {"x": 0}
    except Exception:  # noqa
        return "x:" + op, {"x": 0}
    return op, a or {"x": 0}


def _record(op, fn, objs_of, self_first=True):
    """Wrap fn; objs_of(args, kwargs) -> (operands, remaining positional args)."""

    @functools.wraps(fn)
    def wrapper(*args, **kwargs):
        if _out is None or _depth() > 0:
            return fn(*args, **kwargs)
        import symmray as sr
        from .serialize import OutOfRange, snapshot

        operands, rest = objs_of(args, kwargs)
        if not operands or not all(isinstance(o, (sr.AbelianArray, sr.BlockVector)) for o in operands):
            return fn(*args, **kwargs)
        _state.depth = 1
        names = [f"a{i}" for i in range(len(operands))]
        try:
            try:
                pre = {n: snapshot(o) for n, o in zip(names, operands)}
            except (OutOfRange, TypeError, ValueError):
                pre = None
            outcome, exc, res = "ok", "", None
            try:
                res = fn(*args, **kwargs)
                return res
            except BaseException as e:
                outcome, exc = "raise", type(e).__name__
                raise
            finally:
                if pre is not None:
                    try:
                        sop, sargs = _args_for(op, rest, kwargs, operands)
                        regs = {n: snapshot(o) for n, o in zip(names, operands)}
                        outs = []
                        if outcome == "ok":
                            results = list(res) if isinstance(res, tuple) else [res]
                            for k, r in enumerate(results):
                                same = [n for n, o in zip(names, operands) if r is o]
                                if same:
                                    outs.append(same[0])
                                    continue
                                try:
                                    regs[f"r{k}"] = snapshot(r)
                                    outs.append(f"r{k}")
                                except TypeError:
                                    pass
                        _tid[0] += 1
                        tid = _tid[0]
                        _emit({"tid": tid, "seq": 0, "op": "init", "args": {"x": 0}, "in": [], "out": names,
                               "entry": "method", "outcome": "ok", "exc": "", "cfg": {"x": 0}, "regs": pre})
                        _emit({"tid": tid, "seq": 1, "op": sop, "args": sargs, "in": names, "out": outs,
                               "entry": "suite", "outcome": outcome, "exc": exc, "cfg": {"x": 0}, "regs": regs})
                        _stats["calls"] += 1
                    except (OutOfRange, TypeError, ValueError):
                        _stats["skipped"] += 1
        finally:
            _state.depth = 0

    return wrapper


def _self_only(args, kwargs):
    return [args[0]], args[1:]


def _self_and_arrays(args, kwargs):
    import symmray as sr

    ops = [args[0]] + [x for x in args[1:] if isinstance(x, (sr.AbelianArray, sr.BlockVector))]
    rest = tuple(x for x in args[1:] if not isinstance(x, (sr.AbelianArray, sr.BlockVector)))
    return ops, rest


METHODS = ["transpose", "conj", "dagger", "squeeze", "expand_dims", "fuse", "unfuse", "unfuse_all", "reshape", "einsum",
           "trace", "to_dense", "sync_charges", "phase_flip", "phase_transpose", "phase_global", "phase_sync", "copy",
           "norm"]
BINARY = {"__matmul__": "matmul", "__add__": "add", "__sub__": "sub", "multiply_diagonal": "multiply_diagonal",
          "allclose": "allclose"}


def pytest_configure(config):
    global _out
    path = os.environ.get("VERIF_TRACE_OUT")
    if not path:
        return
    import symmray as sr
    from . import serialize

    serialize.DATA_LIMIT = int(os.environ.get("VERIF_TRACE_LIMIT", "64"))
    serialize.ARRAY_LIMIT = int(os.environ.get("VERIF_TRACE_LIMIT", "64"))
    _out = open(path, "a")
    seen = set()
    for cls in (sr.AbelianArray, sr.FermionicArray):
        for name in METHODS:
            f = cls.__dict__.get(name)
            if f is not None and callable(f):
                setattr(cls, name, _record(name, f, _self_only))
        for name, op in BINARY.items():
            f = cls.__dict__.get(name)
            if f is not None and callable(f):
                setattr(cls, name, _record(op, f, _self_and_arrays))
    # the dispatching functions
    import symmray.interface as itf
    import symmray.linalg as la

    def td_objs(args, kwargs):
        return [args[0], args[1]], args[2:]

    orig_td = itf.tensordot
    wrapped = _record("tensordot", orig_td, td_objs)
    # keep singledispatch attributes usable (register / dispatch are reached through the original object)
    for attr in ("register", "dispatch", "registry"):
        setattr(wrapped, attr, getattr(orig_td, attr))
    itf.tensordot = wrapped
    sr.tensordot = wrapped
    import autoray as ar

    ar.register_function("symmray", "tensordot", wrapped)
    for name in ("qr", "svd", "eigh", "solve"):
        f = getattr(la, name)
        w = _record(name, f, (lambda a, k: ([a[0], a[1]], a[2:])) if name == "solve" else (lambda a, k: ([a[0]], a[1:])))
        for attr in ("register", "dispatch", "registry"):
            if hasattr(f, attr):
                setattr(w, attr, getattr(f, attr))
        setattr(la, name, w)
        ar.register_function("symmray", f"linalg.{name}", w)
    if os.environ.get("VERIF_TRACE_INTFILL") == "1":
        import numpy as np
        import symmray.utils as ut

        def get_random_fill_fn(seed=None, dist="normal", dtype="float64", scale=1.0, loc=0.0):
            rng = np.random.default_rng(seed)

            def fill_fn(shape):
                x = rng.integers(-3, 4, size=shape).astype("float64")
                if "complex" in dtype:
                    x = x + 1j * rng.integers(-2, 3, size=shape)
                return x.astype(dtype)

            return fill_fn

        ut.get_random_fill_fn = get_random_fill_fn


def pytest_unconfigure(config):
    global _out
    if _out is not None:
        _out.close()
        _out = None
        path = os.environ.get("VERIF_TRACE_OUT")
        with open(path + ".stats", "w") as f:
            json.dump(_stats, f)
