"""One public call in a brand-new interpreter (C15: nothing a process has done before may show in a result).

stdin: pickle of (op, operands, args, entry);  stdout: one JSON line {"outcome", "exc", "results": [projected values]}."""
import json
import pickle
import sys
import warnings


def main():
    op, objs, args, entry = pickle.load(sys.stdin.buffer)
    from .replay import call
    from .serialize import snapshot

    try:
        with warnings.catch_warnings():
            warnings.simplefilter("ignore")
            res = call(op, objs, args, entry)
        out = {"outcome": "ok", "exc": "", "results": [snapshot(r) for r in res]}
    except Exception as e:  # noqa
        out = {"outcome": "raise", "exc": type(e).__name__, "results": []}
    # (the library may print while it is imported: the result is the line after the marker)
    sys.stdout.write("\n@@FRESH-RESULT@@" + json.dumps(out) + "\n")


if __name__ == "__main__":
    main()
