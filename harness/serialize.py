"""Projection of symmray objects onto the abstract state of the TLA+ spec.

The serializer judges nothing: it only writes down what it sees, using
integers, booleans, strings, arrays and objects only (the TLC Json module
rejects null, truncates floats and mangles ints >= 2**31).

Exact data are Gaussian integers ``[re, im]``.  A block whose entries are not
all integral (LAPACK output) is written with ``exact: false`` and no data.
"""

import numpy as np

LIMIT = 2**30
ARRAY_LIMIT = None  # arrays with more stored elements in total are logged without data
DATA_LIMIT = None   # blocks with more elements than this are logged without data (structure + checksum only)


class OutOfRange(Exception):
    """An entry is too large for TLC's 32 bit integers."""


def ser_charge(c):
    if isinstance(c, tuple):
        if len(c) != 2:
            raise TypeError(f"unsupported charge {c!r}")
        return [int(c[0]), int(c[1])]
    return [int(c), 0]


def ser_key(c):
    """Key of a BlockVector block: a charge, or a 1-sector ``(c,)``."""
    if isinstance(c, tuple) and len(c) == 1:
        return ser_charge(c[0])
    return ser_charge(c)


def ser_index(ix):
    sub = []
    if ix.subinfo is not None:
        si = ix.subinfo
        sub = [
            {
                "ixs": [ser_index(j) for j in si.indices],
                "ext": [
                    {
                        "c": ser_charge(c),
                        "subs": [
                            {"ss": [ser_charge(q) for q in ss], "d": int(d)}
                            for ss, d in extent.items()
                        ],
                    }
                    for c, extent in si.extents.items()
                ],
            }
        ]
    return {
        "dual": bool(ix.dual),
        "cm": [{"c": ser_charge(c), "d": int(d)} for c, d in ix.chargemap.items()],
        "sub": sub,
    }


def _dtname(a):
    dt = getattr(a, "dtype", None)
    if dt is None:
        return "py" + type(a).__name__
    return str(dt)


def ser_data(a):
    """Return (exact, data) for an array-like of numbers."""
    arr = np.asarray(a)
    flat = arr.reshape(-1)
    if flat.dtype == bool:
        return True, [[int(v), 0] for v in flat]
    if not (np.issubdtype(flat.dtype, np.number)):
        return False, []
    if flat.size and not np.all(np.isfinite(flat)):
        return False, []
    re = np.real(flat)
    im = np.imag(flat)
    rre = np.rint(re)
    rim = np.rint(im)
    if flat.size and (
        np.max(np.abs(re - rre)) > 1e-9 or np.max(np.abs(im - rim)) > 1e-9
    ):
        return False, []
    if flat.size and (np.max(np.abs(rre)) >= LIMIT or np.max(np.abs(rim)) >= LIMIT):
        raise OutOfRange()
    return True, [[int(x), int(y)] for x, y in zip(rre, rim)]


def _crc(a):
    import zlib

    try:
        return zlib.crc32(np.ascontiguousarray(a).tobytes()) & 0x3FFFFFFF
    except Exception:  # noqa
        return 0


def ser_block(sector, a):
    if DATA_LIMIT is not None and np.size(a) > DATA_LIMIT:
        exact, data = False, []
    else:
        exact, data = ser_data(a)
    return {
        "h": _crc(a),
        "s": [ser_charge(c) for c in sector],
        "shape": [int(d) for d in np.shape(a)],
        "data": data,
        "exact": exact,
        "dt": _dtname(a),
    }


def ser_label(lbl):
    if isinstance(lbl, (int, np.integer)) and not isinstance(lbl, bool):
        return int(lbl)
    return str(lbl)


NORM_LIMIT = 2.0 ** 28   # TLC has 32 bit integers: an array is logged with data only if the sum of its squared
                         # magnitudes stays below this (then every product, contraction sum and squared norm the spec forms fits)


def _too_large(blocks):
    tot = 0.0
    for b in blocks:
        a = np.asarray(b)
        if a.dtype == bool or not np.issubdtype(a.dtype, np.number):
            continue
        tot += float(np.sum(np.abs(a.astype(np.complex128)) ** 2))
        if not tot < NORM_LIMIT:      # also catches nan / inf
            return True
    return False


def ser_array(x):
    global DATA_LIMIT
    if (ARRAY_LIMIT is not None and sum(int(np.size(b)) for b in x.blocks.values()) > ARRAY_LIMIT) or _too_large(x.blocks.values()):
        saved, DATA_LIMIT = DATA_LIMIT, -1
        try:
            return _ser_array(x)
        finally:
            DATA_LIMIT = saved
    return _ser_array(x)


def _ser_array(x):
    import symmray as sr

    fermi = isinstance(x, sr.FermionicArray)
    out = {
        "t": "array",
        "kind": "fermionic" if fermi else "abelian",
        "cls": "static" if type(x).static_symmetry else "dynamic",
        "sym": type(x.symmetry).__name__,
        "charge": ser_charge(x.charge),
        "ix": [ser_index(ix) for ix in x.indices],
        "blocks": [ser_block(s, a) for s, a in x.blocks.items()],
        "phases": [],
        "oddpos": [],
        "ids": {"blocks": id(x._blocks) % LIMIT, "phases": 0},
    }
    if fermi:
        out["phases"] = [
            {"s": [ser_charge(c) for c in s], "p": int(p)}
            for s, p in x.phases.items()
        ]
        out["oddpos"] = [
            {"label": ser_label(o.label), "dual": bool(o.dual)} for o in x.oddpos
        ]
        out["ids"]["phases"] = id(x.phases) % LIMIT
    return out


def ser_vector(v):
    global DATA_LIMIT
    saved = DATA_LIMIT
    if _too_large(v.blocks.values()):
        DATA_LIMIT = -1
    try:
        blocks = [dict(ser_block((), a), c=ser_key(c)) for c, a in v.blocks.items()]
    finally:
        DATA_LIMIT = saved
    return {
        "t": "vector",
        "blocks": blocks,
        "ids": {"blocks": id(v._blocks) % LIMIT, "phases": 0},
    }


def ser_scalar(v):
    exact, data = ser_data(v)
    return {
        "t": "scalar",
        "v": data[0] if exact else [0, 0],
        "exact": exact,
        "dt": _dtname(v),
    }


def ser_dense(a):
    exact, data = (False, []) if _too_large([a]) else ser_data(a)
    return {
        "t": "dense",
        "shape": [int(d) for d in np.shape(a)],
        "data": data,
        "exact": exact,
        "dt": _dtname(a),
    }


def ser_raise(exc):
    return {"t": "raise", "exc": type(exc).__name__}


def snapshot(obj):
    """Serialize any value the harness keeps in a register."""
    import symmray as sr

    if isinstance(obj, sr.AbelianArray):
        return ser_array(obj)
    if isinstance(obj, sr.BlockVector):
        return ser_vector(obj)
    if isinstance(obj, BaseException):
        return ser_raise(obj)
    if obj is None:
        return {"t": "none"}
    if isinstance(obj, np.ndarray) and obj.ndim > 0:
        return ser_dense(obj)
    if isinstance(obj, (bool, np.bool_)):
        return {"t": "bool", "v": bool(obj)}
    if isinstance(obj, (int, float, complex, np.number, np.ndarray)):
        return ser_scalar(obj)
    if isinstance(obj, str):
        return {"t": "str", "v": obj}
    if isinstance(obj, dict) and obj.get("t") is not None:
        # already a projected value (tables, observations)
        return obj
    raise TypeError(f"cannot snapshot {type(obj)}")
