"""C07 routine level: call the real calc_reshape_args on (a slice of) its whole domain and write the plans down.

prog = {"driver": "reshapeargs", "tid", "shapes": [[...], ...]}   every merge/drop target of every shape, and the
reverse trip with the sub-sizes the forward trip leaves behind (computed by a plain simulation of the plan)."""
from ..replay import Session


def targets(shape):
    """All shapes obtained by merging adjacent axes and/or dropping unit axes."""
    out = set()

    def rec(i, cur):
        if i == len(shape):
            out.add(tuple(cur))
            return
        if shape[i] == 1:
            rec(i + 1, cur)                      # drop
        for k in range(1, len(shape) - i + 1):
            p = 1
            for d in shape[i:i + k]:
                p *= d
            rec(i + k, cur + [p])

    rec(0, [])
    out.discard(tuple(shape))
    return sorted(out)


def simulate(shape, subsizes, plan):
    """Shape-level execution of a plan (to know the sub-sizes of the fused axes for the way back)."""
    axes = [(d, s) for d, s in zip(shape, subsizes)]
    un, fu, ex = plan
    for k in un:
        axes = axes[:k] + [(d, None) for d in axes[k][1]] + axes[k + 1:]
    for grouping in fu:
        flat = [a for g in grouping for a in g]
        pos = min(flat)
        before = [a for a in range(pos) if a not in flat]
        after = [a for a in range(pos, len(axes)) if a not in flat]
        new = []
        for g in grouping:
            if len(g) == 1:
                new.append(axes[g[0]])
            else:
                p = 1
                for a in g:
                    p *= axes[a][0]
                new.append((p, tuple(axes[a][0] for a in g)))
        axes = [axes[a] for a in before] + new + [axes[a] for a in after]
    for k in ex:
        axes = axes[:k] + [(1, None)] + axes[k:]
    return axes


def run(prog, rec):
    from symmray.abelian_core import calc_reshape_args

    ses = Session(rec, prog["tid"], {}, {})

    def emit(shape, newshape, subsizes, back, wellposed=False):
        try:
            plan = calc_reshape_args(tuple(shape), tuple(newshape), tuple(subsizes))
            outcome = "ok"
        except Exception:  # noqa
            plan, outcome = ((), (), ()), "raise"
        tab = {"t": "table", "shape": list(shape), "newshape": list(newshape),
               "subsizes": [list(s) if s is not None else [] for s in subsizes], "back": bool(back), "wellposed": bool(wellposed),
               "plan": {"unfuse": list(plan[0]), "fuse": [[list(g) for g in grouping] for grouping in plan[1]],
                        "expand": list(plan[2])}}
        ses.regs = {"tab": tab}
        ses._emit("reshape_args", {"shape": list(shape), "newshape": list(newshape)}, [], ["tab"], "method", outcome, "")
        return plan if outcome == "ok" else None

    for shape in prog["shapes"]:
        shape = tuple(shape)
        none = (None,) * len(shape)
        for t in targets(shape):
            plan = emit(shape, t, none, False)
            if plan is None:
                continue
            axes = simulate(shape, none, plan)
            if tuple(a[0] for a in axes) != tuple(t):
                continue   # the forward plan is already reported by the spec
            subs = tuple(a[1] for a in axes)
            emit(t, shape, subs, True)
            # un-merging AND asking for a new unit axis in the same request (any position): not a round trip the
            # property promises, but whatever plan is returned must give the requested shape
            for p in range(len(shape) + 1):
                emit(t, shape[:p] + (1,) + shape[p:], subs, False, wellposed=True)
    ses.close()
