"""C18: local fermionic operator arrays.  Calls the real builders and writes
down what they return; term lists / bases are given as mode ranks so that the
spec sees the same ordering of labels as Python does.

prog = {"driver": "localops", "tid", "sym", "modes": [label...], "terms": [[coeff, [[mode_i, "+"|"-"], ...]], ...],
        "bases": [[[ [mode_i, "+"], ...], ...], ...], "labels": [[charge per state] per site], "apply": bool,
        "terms2": optional second operator for the product law}
"""
import itertools

import numpy as np

from .. import descriptors as D
from ..replay import Session
from ..serialize import ser_charge, snapshot


def _ops(spec, modes):
    import symmray as sr

    return tuple(sr.FermionicOperator(modes[m], sym == "+") for m, sym in spec)


def _pyc(c):
    """Coefficient of a term: an int, or [re, im] for a complex one."""
    if isinstance(c, (list, tuple)):
        return complex(c[0], c[1]) if c[1] else c[0]
    return c


def _serc(c):
    z = complex(_pyc(c))
    return [int(round(z.real)), int(round(z.imag))]


def _ser_ops(spec, rank):
    return [{"m": rank[m], "cr": sym == "+"} for m, sym in spec]


def run(prog, rec):
    import symmray as sr
    from symmray.fermionic_local_operators import build_local_fermionic_array, build_local_fermionic_elements

    sym = prog["sym"]
    modes = prog["modes"]                       # python labels, any sortable
    order = sorted(set(modes))
    rank = {i: order.index(m) + 1 for i, m in enumerate(modes)}
    ses = Session(rec, prog["tid"], {}, {})

    def build(terms):
        py_terms = tuple((_pyc(c), _ops(ops, modes)) for c, ops in terms)
        py_bases = tuple(tuple(_ops(st, modes) for st in basis) for basis in prog["bases"])
        s_terms = [{"c": _serc(c), "ops": _ser_ops(ops, rank)} for c, ops in terms]
        s_bases = [[_ser_ops(st, rank) for st in basis] for basis in prog["bases"]]
        return py_terms, py_bases, s_terms, s_bases

    py_terms, py_bases, s_terms, s_bases = build(prog["terms"])
    # (i) the element dictionary
    try:
        el = build_local_fermionic_elements(py_terms, py_bases)
        entries = [{"k": [int(i) for i in idx], "v": _serc(v)} for idx, v in el.items()]
        outcome = "ok"
    except Exception:  # noqa
        entries, outcome = [], "raise"
    ses.regs = {"tab": {"t": "table", "terms": s_terms, "bases": s_bases, "entries": entries}}
    ses._emit("local_elements", {"sym": sym}, [], ["tab"], "method", outcome, "")
    if "labels" not in prog:
        ses.close()
        return
    labels = prog["labels"]
    s_labels = [[list(c) for c in lab] for lab in labels]
    index_maps = [[D.py_charge(sym, c) for c in lab] for lab in labels]
    n = len(py_bases)
    args = {"terms": s_terms, "bases": s_bases, "labels": s_labels, "sym": sym}

    def make_array(pt, a, name):
        try:
            g = build_local_fermionic_array(pt, py_bases, sym, index_maps)
            ses.regs[name] = g
            ses._emit("local_array", a, [], [name], "method", "ok", "")
            return g
        except Exception as e:  # noqa
            ses._emit("local_array", a, [], [], "method", "raise", type(e).__name__)
            return None

    ses.regs = {}
    G = make_array(py_terms, args, "G")
    G2 = None
    if "terms2" in prog and G is not None:
        pt2, _, st2, _ = build(prog["terms2"])
        G2 = make_array(pt2, dict(args, terms=st2), "G2")
        # the product operator: concatenated strings, multiplied coefficients
        prod = [[_serc(_pyc(c1) * _pyc(c2)), list(o1) + list(o2)] for c1, o1 in prog["terms"] for c2, o2 in prog["terms2"]]
        ptp, _, stp, _ = build(prod)
        G12 = make_array(ptp, dict(args, terms=stp), "G12")
    if not prog.get("apply") or G is None:
        ses.close()
        return
    # (ii) apply to every basis tensor |in>
    klass, need = D.get_class("fermionic", "static", sym)
    axes = {"axes": [list(range(n, 2 * n)), list(range(n))], "preserve_array": True}
    shapes = [len(b) for b in py_bases]
    states = list(itertools.product(*[range(k) for k in shapes]))
    if len(states) > prog.get("max_states", 16):
        import random

        states = random.Random(prog["tid"]).sample(states, prog.get("max_states", 16))
    for st in states:
        dense = np.zeros(shapes)
        dense[st] = 1.0
        charge = (0, 0)
        for s, i in enumerate(st):
            charge = D.combine(sym, charge, tuple(labels[s][i]))
        kw = {"oddpos": 1} if D.parity(sym, charge) else {}
        psi = klass.from_dense(dense, index_maps, duals=[False] * n, charge=D.py_charge(sym, charge),
                               invalid_sectors="ignore", **kw)
        ses.regs["psi"] = psi
        ses._emit("make_state", {"instate": list(st)}, [], ["psi"], "method", "ok", "")
        if ses.do({"op": "tensordot", "in": ["G", "psi"], "out": ["phi"], "args": axes, "entry": "symmray"}) != "ok":
            continue
        ses._emit("op_apply", dict(args, instate=list(st)), ["phi", "psi"], [], "method", "ok", "")
        if G2 is not None:
            # G(G2 psi) = G12 psi
            if ses.do({"op": "tensordot", "in": ["G2", "psi"], "out": ["phi2"], "args": axes, "entry": "symmray"}) == "ok":
                ses.do({"op": "tensordot", "in": ["G", "phi2"], "out": ["phi12a"], "args": axes, "entry": "symmray"})
                ses.do({"op": "tensordot", "in": ["G12", "psi"], "out": ["phi12b"], "args": axes, "entry": "symmray"})
                ses.do({"op": "rel", "in": ["phi12a", "phi12b"], "out": [],
                        "args": {"how": "same", "clause": "C18.product_law"}})
    ses.close()


def run_builders(prog, rec):
    """The shipped model builders called directly (prog = {"driver": "localbuilders", "tid", "calls": [...]})."""
    import symmray as sr

    ses = Session(rec, prog["tid"], {}, {})
    for k, c in enumerate(prog["calls"]):
        name, sym = c["name"], c["sym"]
        scale = c.get("scale", 1)
        args = {"name": name, "sym": sym, "t": int(c.get("t", 1)), "V": int(c.get("V", 0)),
                "Ua": int(c.get("U", [0, 0])[0]), "Ub": int(c.get("U", [0, 0])[1]),
                "mua": int(c.get("mu", [0, 0])[0]), "mub": int(c.get("mu", [0, 0])[1]),
                "z": [int(z) for z in c.get("z", [1, 1])], "scale": int(scale)}
        try:
            if name == "hubbard":
                U = c["U"] if c.get("pair_args", True) else c["U"][0]
                mu = c["mu"] if c.get("pair_args", True) else c["mu"][0]
                g = sr.fermi_hubbard_local_array(sym, t=c["t"], U=tuple(U) if isinstance(U, list) else U,
                                                 mu=tuple(mu) if isinstance(mu, list) else mu, coordinations=tuple(c["z"]))
            elif name == "hubbard_spinless":
                mu = c["mu"] if c.get("pair_args", True) else c["mu"][0]
                g = sr.fermi_hubbard_spinless_local_array(sym, t=c["t"], V=c["V"], mu=tuple(mu) if isinstance(mu, list) else mu,
                                                          coordinations=tuple(c["z"]))
            elif name == "number_spinless":
                g = sr.fermi_number_operator_spinless_local_array(sym)
            elif name == "number_spinful":
                g = sr.fermi_number_operator_spinful_local_array(sym)
            else:
                g = sr.fermi_spin_operator_local_array(sym)
            if scale != 1:
                g = g * scale
            ses.regs = {f"G{k}": g}
            ses._emit("local_builder", args, [], [f"G{k}"], "method", "ok", "")
        except Exception as e:  # noqa
            ses.regs = {}
            ses._emit("local_builder", args, [], [], "method", "raise", type(e).__name__)
    ses.close()
