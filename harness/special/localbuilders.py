"""C18: the shipped model builders called directly (see special/localops.run_builders)."""
from .localops import run_builders as run  # noqa
