"""C19: edge-wise Hamiltonians and site information.

prog = {"driver": "hams", "tid", "sym", "model": "spinful"|"spinless", "sites": [label...], "edges": [[i, j]...] (positions
        in sites), "t": ..., "U": ..., "mu": ..., "V": ..., "form": {"t": "scalar"|"dict"|"dict_rev"|"callable", ...}}
Coefficients are given per edge / per site as integers (multiples of 60); the harness hands them to the
builders in the requested form and records the arrays they return.
"""
from ..replay import Session


def _label(spec):
    return tuple(spec) if isinstance(spec, list) else spec


def run(prog, rec):
    import symmray as sr

    sym, model = prog["sym"], prog["model"]
    sites = [_label(s) for s in prog["sites"]]
    order = sorted(sites)
    rank = {s: order.index(s) + 1 for s in sites}
    edges = [(sites[i], sites[j]) for i, j in prog["edges"]]
    s_edges = [[rank[a], rank[b]] for a, b in edges]
    form = prog.get("form", {})
    tval = {e: prog["t"][k] for k, e in enumerate(edges)}
    vval = {e: prog.get("V", [0] * len(edges))[k] for k, e in enumerate(edges)}
    uval = {s: prog.get("U", [0] * len(sites))[k] for k, s in enumerate(sites)}
    mval = {s: prog["mu"][k] for k, s in enumerate(sites)}

    def edge_form(vals, how):
        if how == "scalar":
            return float(next(iter(vals.values())))
        if how == "dict":
            return {e: float(v) for e, v in vals.items()}
        if how == "dict_rev":
            return {(b, a): float(v) for (a, b), v in vals.items()}
        return lambda a, b: float(vals[(a, b)] if (a, b) in vals else vals[(b, a)])

    def node_form(vals, how):
        if how == "scalar":
            return float(next(iter(vals.values())))
        if how == "dict":
            return {s: float(v) for s, v in vals.items()}
        return lambda s: float(vals[s])

    ses = Session(rec, prog["tid"], {}, {})
    try:
        if model == "spinful":
            terms = sr.ham_fermi_hubbard_from_edges(
                sym, edges, t=edge_form(tval, form.get("t", "dict")), U=node_form(uval, form.get("U", "dict")),
                mu=node_form(mval, form.get("mu", "dict")))
        else:
            terms = sr.ham_fermi_hubbard_spinless_from_edges(
                sym, edges, t=edge_form(tval, form.get("t", "dict")), V=edge_form(vval, form.get("V", "dict")),
                mu=node_form(mval, form.get("mu", "dict")))
        outcome = "ok"
    except Exception as e:  # noqa
        terms, outcome = {}, "raise"
    keys = [[rank[a], rank[b]] for a, b in terms]
    ses.regs = {"tab": {"t": "table", "keys": keys, "edges": s_edges}}
    ses._emit("ham_keys", {"sym": sym}, [], ["tab"], "method", outcome, "")
    for (a, b), g in terms.items():
        if (a, b) not in tval:
            continue
        ses.regs = {"G": g}
        args = {"model": model, "sym": sym, "edges": s_edges, "edge": [rank[a], rank[b]],
                "t": int(tval[(a, b)]), "V": int(vval[(a, b)]), "Ua": int(uval[a]), "Ub": int(uval[b]),
                "mua": int(mval[a]), "mub": int(mval[b])}
        ses._emit("ham_edge", args, [], ["G"], "method", "ok", "")
    # site information derived from the same edges: with a physical index and without one
    variants = [("int", {"bond_dim": 2, "phys_dim": 2}), ("none", {"bond_dim": 3, "phys_dim": None}),
                ("int4", {"bond_dim": 1, "phys_dim": 4})]
    for vname, kw in variants:
        phys = kw["phys_dim"] is not None
        try:
            info = sr.parse_edges_to_site_info(edges, **kw)
            tab = {"t": "table", "edges": s_edges, "phys": phys,
                   "sites": [{"site": rank[s], "inds": [str(i) for i in d["inds"]], "duals": [bool(x) for x in d["duals"]],
                              "coordination": int(d["coordination"]), "shape": [int(x) for x in d["shape"]]}
                             for s, d in info.items()]}
            outcome = "ok"
        except Exception:  # noqa
            tab, outcome = {"t": "table", "edges": s_edges, "phys": phys, "sites": []}, "raise"
        ses.regs = {"tab": tab}
        ses._emit("site_info", {"sym": sym, "variant": vname, "multi": bool(prog.get("multi"))}, [], ["tab"], "method", outcome, "")
    ses.close()
