"""C15 (threads): replay a TLC-generated interleaving of the cache protocol on the
REAL cached_fuse_block_info.  The module-level ``_fuseinfos`` OrderedDict is
replaced by a subclass whose five operations park the calling thread until the
schedule grants it the turn; nothing in /repo is edited.

prog = {"driver": "threads", "tid", "arrays": {name: descriptor}, "groups": {name: [[..]]},
        "prog": {"1": [names...], "2": [...]}, "maxsize": n, "sched": [[thread, action], ...]}
"""
import threading
from collections import OrderedDict

from .. import descriptors
from ..replay import Session

TIMEOUT = 5.0


class Controller:
    def __init__(self, sched):
        self.sched = [int(t) for t, _ in sched]
        self.pos = 0
        self.cv = threading.Condition()
        self.actual = []
        self.diverged = False
        self.local = threading.local()

    def turn(self, op):
        """Block until it is this thread's turn, run op() atomically, log what happened."""
        me = getattr(self.local, "tid", None)
        if me is None or getattr(self.local, "inside", False):
            return op()[0]
        with self.cv:
            while not self.diverged and self.pos < len(self.sched) and self.sched[self.pos] != me:
                if not self.cv.wait(TIMEOUT):
                    self.diverged = True
            self.local.inside = True
            try:
                val, action, exc = op()
            finally:
                self.local.inside = False
            self.actual.append([me, action])
            self.pos += 1
            self.cv.notify_all()
        if exc is not None:
            raise exc
        return val


class SchedDict(OrderedDict):
    ctrl = None

    def __getitem__(self, key):
        def op():
            try:
                return OrderedDict.__getitem__(self, key), "get_hit", None
            except KeyError as e:
                return None, "get_miss", e
        return self.ctrl.turn(op)

    def move_to_end(self, key, last=True):
        def op():
            try:
                return OrderedDict.move_to_end(self, key, last), "move", None
            except KeyError as e:
                return None, "move_miss", e
        return self.ctrl.turn(op)

    def __setitem__(self, key, value):
        def op():
            return OrderedDict.__setitem__(self, key, value), "set", None
        return self.ctrl.turn(op)

    def __len__(self):
        def op():
            return OrderedDict.__len__(self), "len", None
        return self.ctrl.turn(op)

    def popitem(self, last=True):
        def op():
            try:
                return OrderedDict.popitem(self, last), "pop", None
            except KeyError as e:
                return None, "pop_empty", e
        return self.ctrl.turn(op)


def run(prog, rec):
    import symmray.abelian_core as ac

    arrays = {k: descriptors.build(d) for k, d in prog["arrays"].items()}
    groups = {k: tuple(tuple(g) for g in gs) for k, gs in prog["groups"].items()}
    saved = (ac._fuseinfos, ac._fuseinfo_cache_maxsize)
    regs = dict(arrays)
    # sequential reference with the cache disabled
    ac._fuseinfo_cache_maxsize = 0
    for k, x in arrays.items():
        regs["ref_" + k] = x.fuse(*groups[k])
    ctrl = Controller(prog["sched"])
    d = SchedDict()
    d.ctrl = ctrl
    ac._fuseinfos = d
    ac._fuseinfo_cache_maxsize = int(prog["maxsize"])
    results, errors = {}, []

    def worker(t, names):
        ctrl.local.tid = t
        for i, nm in enumerate(names):
            try:
                results[f"t{t}_{i}_{nm}"] = arrays[nm].fuse(*groups[nm])
            except BaseException as e:  # noqa
                errors.append([t, type(e).__name__])

    try:
        ths = [threading.Thread(target=worker, args=(int(t), names)) for t, names in prog["prog"].items()]
        for th in ths:
            th.start()
        for th in ths:
            th.join(TIMEOUT * 4)
        alive = any(th.is_alive() for th in ths)
        ctrl.diverged = ctrl.diverged or alive
        with ctrl.cv:
            ctrl.cv.notify_all()
    finally:
        ac._fuseinfos, ac._fuseinfo_cache_maxsize = saved
    regs.update(results)
    ses = Session(rec, prog["tid"], regs, {"cache": int(prog["maxsize"])})
    ses._emit("threads_run",
              {"predicted": [[int(t), a] for t, a in prog["sched"]], "actual": ctrl.actual,
               "errors": errors, "diverged": bool(ctrl.diverged), "maxsize": int(prog["maxsize"]),
               "results": sorted(results), "refs": ["ref_" + r.split("_", 2)[2] for r in sorted(results)],
               "expected_results": sum(len(v) for v in prog["prog"].values()),
               "final_size": OrderedDict.__len__(d)},
              [], sorted(results), "method", "ok", "")
    ses.close()
