"""C15: free-running threads (tiny switch interval) making out-of-place calls on SHARED arrays; every result is
compared bit for bit with the result of the same call made sequentially before the threads started.

prog = {"driver": "stress", "tid", "arrays": {name: descriptor}, "calls": [{"op", "in", "args"}], "nthreads", "iters",
        "maxsize"}
The schedule is not controlled (that is what MC_Cache + forced schedules are for); this driver is about state that is
shared below the level of the cache protocol (scratch buffers inside cached plans, memoised tables)."""
import sys
import threading

from .. import descriptors
from ..replay import Session, bits_equal, call


def run(prog, rec):
    import symmray.abelian_core as ac

    arrays = {k: descriptors.build(d) for k, d in prog["arrays"].items()}
    saved = (ac._fuseinfos, ac._fuseinfo_cache_maxsize)
    ac._fuseinfos = type(saved[0])()
    ac._fuseinfo_cache_maxsize = 0
    calls = prog["calls"]

    def do(c):
        objs = [arrays[r] for r in c["in"]]
        if c["op"] == "selfdot":
            # x contracted with its own conjugate (out of place, shared operand)
            import symmray as sr

            a = c["args"]
            return (sr.tensordot(objs[0], objs[0].conj(), axes=(tuple(a["axes"][0]), tuple(a["axes"][1])), mode=a["mode"],
                                 preserve_array=True),)
        return call(c["op"], objs, c.get("args", {}), c.get("entry", "method"))

    refs = []
    for c in calls:
        try:
            refs.append(do(c))
        except Exception as e:  # noqa
            refs.append(e)
    ac._fuseinfo_cache_maxsize = int(prog.get("maxsize", 8192))
    mismatches, errors, done = [], [], [0]
    lock = threading.Lock()

    def worker(t):
        import random

        rng = random.Random(prog["tid"] * 131 + t)
        for _ in range(prog["iters"]):
            k = rng.randrange(len(calls))
            c = calls[k]
            try:
                res = do(c)
                ok = not isinstance(refs[k], Exception) and len(res) == len(refs[k]) and all(
                    bits_equal(a, b) for a, b in zip(res, refs[k]))
            except Exception as e:  # noqa
                ok = isinstance(refs[k], Exception) and type(e) is type(refs[k])
                if not ok:
                    with lock:
                        errors.append(type(e).__name__)
                    continue
            with lock:
                done[0] += 1
                if not ok:
                    mismatches.append(k)

    old = sys.getswitchinterval()
    sys.setswitchinterval(1e-6)
    try:
        ths = [threading.Thread(target=worker, args=(t,)) for t in range(prog["nthreads"])]
        for th in ths:
            th.start()
        for th in ths:
            th.join(120)
        hung = any(th.is_alive() for th in ths)
    finally:
        sys.setswitchinterval(old)
        ac._fuseinfos, ac._fuseinfo_cache_maxsize = saved
    ses = Session(rec, prog["tid"], {}, {"cache": int(prog.get("maxsize", 8192))})
    ses._emit("stress_run", {"threads": int(prog["nthreads"]), "iters": int(prog["iters"]), "completed": int(done[0]),
                             "mismatches": len(mismatches), "errors": sorted(set(errors)), "hung": bool(hung),
                             "ncalls": len(calls)}, [], [], "method", "ok", "")
    ses.close()
