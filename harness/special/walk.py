"""Adaptive random walks over the public API (C01, C14, C20 and general trace
production).  The next call is chosen from what is applicable to the current
REAL objects (ranks, fused axes, unit axes, ...): this is input selection, not
judgement - every recorded event is judged by the TLA+ spec, including whether
the call was enabled at all.

prog = {"driver": "walk", "tid": n, "seed": s, "sym": ..., "kind": ..., "depth": d, "dtype": ...}
"""

import itertools

import numpy as np

from .. import gen
from ..replay import Session

MAXREG = 7
MAXELEMS = 160


def _size(x):
    return sum(int(np.size(b)) for b in x.blocks.values())


def _arrays(regs):
    import symmray as sr

    return [k for k, v in regs.items() if isinstance(v, sr.AbelianArray)]


def _merge_targets(rng, shape):
    t = []
    i = 0
    n = len(shape)
    while i < n:
        if shape[i] == 1 and rng.random() < 0.5:
            i += 1
            continue
        ln = rng.randint(1, min(2, n - i))
        p = 1
        for d in shape[i:i + ln]:
            p *= d
        t.append(p)
        i += ln
    return t


def choose(rng, regs, kind, fresh):
    """Return a step dict applicable to the current registers, or None."""
    import symmray as sr

    names = _arrays(regs)
    if not names:
        return None
    r = rng.choice(names)
    x = regs[r]
    n = x.ndim
    out = fresh()
    ip = rng.random() < 0.2
    tgt = [r] if ip else [out]
    inp = {"inplace": True} if ip else {}
    cands = []

    def add(op, args=None, ins=None, outs=None, entry="method", w=1.0):
        cands.append((w, {"op": op, "in": ins or [r], "out": outs or tgt, "args": dict(args or {}), "entry": entry}))

    ent3 = rng.choice(["method", "symmray", "autoray"])
    if n >= 1:
        perm = list(range(n))
        rng.shuffle(perm)
        add("transpose", dict(inp, axes=perm), entry="method" if ip else ent3, w=2)
    add("conj", dict(inp), entry="method" if ip else ent3)
    add("dagger", dict(inp))
    add("copy", {}, outs=[out])
    add("neg", {}, outs=[out])
    add("smul", {"k": [rng.choice([2, -1, 3]), 0]}, outs=[out])
    if n <= 3:
        ax = rng.randint(0, n)
        a = dict(inp, axis=ax)
        if rng.random() < 0.4:
            sym = type(x.symmetry).__name__
            a["c"] = list(rng.choice(gen.CHARGE_POOL[sym]))
            if rng.random() < 0.6:
                a["dual"] = rng.random() < 0.5      # (otherwise the direction is inherited from the neighbouring axis)
        add("expand_dims", a)
    unit0 = [i for i, ix in enumerate(x.indices)
             if ix.size_total == 1 and next(iter(ix.chargemap)) == x.symmetry.combine()]
    if unit0:
        add("squeeze", dict(inp, axis=[rng.choice(unit0)]))
        add("squeeze", dict(inp, axis_none=True), w=0.3 if all(
            (ix.size_total != 1) or i in unit0 for i, ix in enumerate(x.indices)) else 0.0)
    fusedax = [i for i, ix in enumerate(x.indices) if ix.subinfo is not None]
    if n >= 2 and x.blocks:
        k = rng.randint(2, min(3, n))
        g = rng.sample(range(n), k)
        groups = [g]
        rest = [i for i in range(n) if i not in g]
        if len(rest) >= 2 and rng.random() < 0.3:
            groups.append(rng.sample(rest, 2))
        a = dict(inp, groups=groups)
        if kind == "abelian" and rng.random() < 0.5:
            a["mode"] = rng.choice(["insert", "concat"])
        add("fuse", a, w=2)
    if fusedax:
        add("unfuse", dict(inp, axis=rng.choice(fusedax)), w=2)
        add("unfuse_all", dict(inp))
    if 1 <= n <= 4 and x.blocks and not ip:
        t = _merge_targets(rng, list(x.shape))
        if t != list(x.shape):
            add("reshape", {"newshape": t}, outs=[out], w=1.5)
    add("sync_charges", dict(inp), w=0.5)
    if kind == "fermionic":
        if n:
            add("phase_flip", dict(inp, axs=rng.sample(range(n), rng.randint(1, n))))
            perm = list(range(n))
            rng.shuffle(perm)
            add("phase_transpose", dict(inp, axes=perm))
        add("phase_global", dict(inp))
        add("phase_sync", dict(inp), w=1.5)
    # contraction with the conjugate (always contractible; labels pair up)
    if n >= 1 and _size(x) <= 60:
        k = rng.randint(1, n)
        axes = rng.sample(range(n), k)
        cname = fresh()
        mode = rng.choice(["auto", "fused", "blockwise", "default"])
        add("conj+tensordot", {"axes": [axes, axes], "mode": mode, "preserve_array": rng.random() < 0.5,
                               "cname": cname}, outs=[out], w=3)
    # arithmetic with a structurally identical partner
    if x.blocks:
        add("add", {}, ins=[r, r], outs=[out])
        add("sub", {}, ins=[r, r], outs=[out], w=0.5)
    if n == 2 and x.blocks and not ip:
        add("qr", {"stabilized": rng.random() < 0.5}, outs=[out, fresh()], entry=rng.choice(["symmray", "autoray"]), w=1.5)
        add("svd", {}, outs=[out, fresh(), fresh()], entry=rng.choice(["symmray", "autoray"]), w=1.5)
        add("svd_truncated", {"max_bond": rng.randint(1, 3), "absorb": rng.choice([-1, 0, 1])},
            outs=[out, fresh(), fresh()], w=1.0)
    if x.blocks and not ip:
        add("to_dense", {}, outs=[out], w=0.5)
    if x.blocks and rng.random() < 0.3:
        add("fill_missing_blocks", {}, outs=[r], w=1.0)
    # --- further entry points of the same operations and the remaining public operations ---
    if not ip:
        add("T", {}, outs=[out], w=0.7)
        add("H", {}, outs=[out], w=0.7)
        if n >= 1:
            # einsum: a permutation; or one traced pair of conjugate legs followed by a permutation of the rest
            letters = "abcdefgh"[:n]
            pairs = [(i, j) for i in range(n) for j in range(i + 1, n)
                     if x.indices[i].dual != x.indices[j].dual and dict(x.indices[i].chargemap) == dict(x.indices[j].chargemap)]
            if pairs and rng.random() < 0.6:
                i, j = rng.choice(pairs)
                lhs = list(letters)
                lhs[j] = lhs[i]
                kept = [c for k, c in enumerate(letters) if k not in (i, j)]
                rng.shuffle(kept)
                eq = "".join(lhs) + "->" + "".join(kept)
            else:
                rhs = list(letters)
                rng.shuffle(rhs)
                eq = letters + "->" + "".join(rhs)
            codes = {}
            l, rr = eq.split("->")
            lc = [ord(c) - 96 for c in l]
            rc = [ord(c) - 96 for c in rr]
            add("einsum", {"eq": eq, "lhs": lc, "rhs": rc, "preserve_array": True}, outs=[out], entry=ent3, w=1.2)
        if n == 2 and x.indices[0].dual != x.indices[1].dual and dict(x.indices[0].chargemap) == dict(x.indices[1].chargemap):
            add("trace", {}, outs=[out], entry=ent3, w=0.7)
        if x.blocks:
            add("mul", {}, ins=[r, r], outs=[out], w=0.5)
            add("norm_sq", {}, outs=[out], entry=ent3, w=0.4)
            add("sum", {}, outs=[out], entry=ent3, w=0.3)
        # a second live array to contract with: any register sharing a conjugate pair of legs with x
        others = []
        for r2 in names:
            y = regs[r2]
            if r2 == r or type(y) is not type(x) or _size(y) * _size(x) > 4000:
                continue
            cp = [(i, j) for i in range(n) for j in range(y.ndim)
                  if x.indices[i].dual != y.indices[j].dual and dict(x.indices[i].chargemap) == dict(y.indices[j].chargemap)]
            if cp:
                others.append((r2, cp))
        if others:
            r2, cp = rng.choice(others)
            i, j = rng.choice(cp)
            add("tensordot", {"axes": [[i], [j]], "mode": rng.choice(["auto", "fused", "blockwise"]), "preserve_array": True},
                ins=[r, r2], outs=[out], entry=rng.choice(["symmray", "autoray"]), w=2.5)
            if n in (1, 2) and regs[r2].ndim in (1, 2) and i == n - 1 and j == 0:
                add("matmul", {}, ins=[r, r2], outs=[out], w=1.5)
    tot = sum(w for w, _ in cands)
    t = rng.random() * tot
    for w, st in cands:
        t -= w
        if t <= 0:
            return st
    return cands[-1][1]


def run(prog, rec):
    rng = gen.rng_for(prog["seed"], "walk", prog["tid"])
    sym, kind = prog["sym"], prog["kind"]
    rank = rng.randint(1, 3)
    x = gen.rand_array(rng, sym, rank, kind, dtype=prog.get("dtype", "float64"), sparse=0.5,
                       phases=0.3 if kind == "fermionic" else 0.0, unit_prob=0.15, cls=prog.get("cls"))
    from .. import descriptors

    regs = {"r0": descriptors.build(x)}
    ses = Session(rec, prog["tid"], regs, prog.get("cfg", {}))
    counter = itertools.count(1)

    def fresh():
        return f"r{next(counter)}"

    for _ in range(prog.get("depth", 6)):
        if len(regs) > MAXREG:
            # forget the oldest registers (not an event; the frame clause only speaks about live ones)
            break
        st = choose(rng, regs, kind, fresh)
        if st is None:
            break
        if st["op"] == "conj+tensordot":
            a = st["args"]
            cname = a.pop("cname")
            ses.do({"op": "conj", "in": st["in"], "out": [cname], "args": {}})
            st = {"op": "tensordot", "in": [st["in"][0], cname], "out": st["out"], "args": a, "entry": "symmray"}
        res = ses.do(st)
        if res == "dead":
            break
        big = [k for k in _arrays(regs) if _size(regs[k]) > MAXELEMS or regs[k].ndim > 5]
        if big:
            break
    ses.close()
