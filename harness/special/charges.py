"""C17: record what the real symmetry objects and sector generator return.

prog = {"driver": "charges", "tid": n, "what": "pairs"|"assoc"|"sectors", ...}
The harness only calls the library and writes the answers down."""
import itertools

from .. import descriptors as D
from ..replay import Session
from ..serialize import ser_charge


def box(sym, k):
    if sym == "Z2":
        return [0, 1]
    if sym == "Z4":
        return [0, 1, 2, 3]
    if sym == "U1":
        return list(range(-k, k + 1))
    if sym == "Z2Z2":
        return [(a, b) for a in (0, 1) for b in (0, 1)]
    return [(a, b) for a in range(-k, k + 1) for b in range(-k, k + 1)]


def run(prog, rec):
    import symmray as sr

    sym = prog["sym"]
    S = sr.get_symmetry(sym)
    ses = Session(rec, prog["tid"], {}, {})
    what = prog["what"]
    if what == "pairs":
        C = box(sym, prog.get("k", 6))
        tab = {
            "t": "table", "sym": sym,
            "charges": [ser_charge(c) for c in C],
            "ident": ser_charge(S.combine()),
            "comb": [[ser_charge(S.combine(a, b)) for b in C] for a in C],
            "neg": [ser_charge(S.sign(a)) for a in C],
            "sign_nd": [ser_charge(S.sign(a, False)) for a in C],
            "neg_valid": [bool(S.valid(S.sign(a))) for a in C],
            "comb_neg": [ser_charge(S.combine(a, S.sign(a))) for a in C],
            "valid": [bool(S.valid(a)) for a in C],
            "par": [int(S.parity(a)) for a in C],
            "par_comb": [[int(S.parity(S.combine(a, b))) for b in C] for a in C],
            "comb1": [ser_charge(S.combine(a)) for a in C],
        }
        ses.regs["tab"] = tab
        ses._emit("group_pairs", {"sym": sym}, [], ["tab"], "method", "ok", "")
    elif what == "assoc":
        C = box(sym, prog.get("k", 6))
        for a in prog.get("as") or C:
            a = D.py_charge(sym, a) if isinstance(a, list) else a
            tab = {
                "t": "table", "sym": sym, "a": ser_charge(a),
                "charges": [ser_charge(c) for c in C],
                "l": [[ser_charge(S.combine(S.combine(a, b), c)) for c in C] for b in C],
                "r": [[ser_charge(S.combine(a, S.combine(b, c))) for c in C] for b in C],
                "v": [[ser_charge(S.combine(a, b, c)) for c in C] for b in C],
            }
            ses.regs = {"tab": tab}
            ses._emit("group_assoc", {"sym": sym}, [], ["tab"], "method", "ok", "")
    elif what == "sectors":
        # prog["cases"]: list of {"ix": [{"dual", "charges": [[a,b],..]}], "charge": [a,b], "cls": ...}
        for case in prog["cases"]:
            desc = {"kind": case.get("kind", "abelian"), "cls": case.get("cls", "static"), "sym": sym}
            klass, need_sym = D.get_class(desc["kind"], desc["cls"], sym)
            indices = tuple(
                sr.BlockIndex({D.py_charge(sym, c): 1 for c in ix["charges"]}, dual=ix["dual"]) for ix in case["ix"])
            kw = {"symmetry": sym} if need_sym else {}
            if desc["kind"] == "fermionic":
                kw["oddpos"] = 1
            x = klass(indices=indices, charge=D.py_charge(sym, case["charge"]), **kw)
            # the same index structure read under the OTHER symmetries with the same kind of charge labels, through
            # the generic classes, first: nothing such a call leaves behind may show in the enumeration for `sym`
            for other in (("Z2", "Z4", "U1") if sym in ("Z2", "Z4", "U1") else ("Z2Z2", "U1U1")):
                if other == sym:
                    continue
                try:
                    oklass, _ = D.get_class(desc["kind"], "dynamic", other)
                    okw = dict(kw, symmetry=other)
                    y = oklass(indices=indices, charge=D.py_charge(sym, case["charge"]), **okw)
                    list(y.gen_valid_sectors())
                except Exception:  # noqa  (labels that are no charges of the other group)
                    pass
            try:
                secs = [[ser_charge(c) for c in s] for s in x.gen_valid_sectors()]
                outcome = "ok"
            except Exception as e:  # noqa
                secs, outcome = [], "raise"
            tab = {"t": "table", "sym": sym, "charge": case["charge"],
                   "ix": [{"dual": ix["dual"], "charges": sorted(ix["charges"])} for ix in case["ix"]],
                   "sectors": secs}
            ses.regs = {"tab": tab}
            ses._emit("sectors", {"sym": sym}, [], ["tab"], "method", outcome, "")
    ses.close()
