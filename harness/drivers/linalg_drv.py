"""C11 / C12 / C13: decompositions, spectra, truncation."""
from .. import gen
from .fuse import rel


def matrix(rng, sym, kind, pattern="monomial", square_vals=False, dtype="float64", maxc=3, maxd=3,
           sparse=0.3, hermitian=False, full=False, phases=None, floaty=False, charge=None, start=None):
    if hermitian:
        ix0 = gen.rand_index(rng, sym, maxc, maxd)
        ixs = [ix0, gen.conj_index(ix0)]
        charge = (0, 0)
    elif pattern == "monomial_square":
        # square blocks for ANY total charge q: the column table is the row table with every charge shifted so
        # that (row, column) conserves q, sizes unchanged
        ix0 = gen.rand_index(rng, sym, maxc, maxd)
        ix0["dual"] = rng.random() < 0.5
        q = rng.choice(gen.CHARGE_POOL[sym]) if rng.random() < 0.6 else (0, 0)
        d1 = rng.random() < 0.5
        cols = []
        for e in ix0["cm"]:
            r = tuple(e["c"])
            sr_ = gen.D.neg(sym, r) if ix0["dual"] else r
            # sign(c, d1) = q - sign(r, d0)
            t = gen.D.combine(sym, tuple(q), gen.D.neg(sym, sr_))
            c = gen.D.neg(sym, t) if d1 else t
            cols.append({"c": list(c), "d": e["d"]})
        cols.sort(key=lambda e: tuple(e["c"]))
        ixs = [ix0, {"dual": d1, "cm": cols}]
        charge = tuple(q)
    else:
        ixs = [gen.rand_index(rng, sym, maxc, maxd), gen.rand_index(rng, sym, maxc, maxd)]
    x = gen.rand_array(rng, sym, 2, kind, ixs=ixs, charge=charge, dtype=dtype, sparse=0.0 if full else sparse,
                       phases=(0.4 if kind == "fermionic" else 0.0) if phases is None else phases,
                       oddpos=rng.randint(1, 9), start=start or rng.randint(1, 4))
    if full:
        x["drop"] = []
    fill = x["fill"]
    if floaty:
        fill["float"] = True
    else:
        fill["pattern"] = "diag" if hermitian else ("monomial" if pattern == "monomial_square" else pattern)
        fill["square"] = square_vals
        fill["alt"] = not square_vals and not hermitian or (hermitian and rng.random() < 0.5)
    return x


def decomposition_steps(rng, kind, steps, src="x", tag="", exact=True, herm=False):
    ent = rng.choice(["symmray", "autoray"])
    stab = rng.random() < 0.5
    steps.append({"op": "qr", "in": [src], "out": [f"q{tag}", f"r{tag}"], "args": {"stabilized": stab}, "entry": ent})
    steps.append({"op": "observe", "in": [src, f"q{tag}", f"r{tag}"], "out": [f"oq{tag}"],
                  "args": {"what": "qr", "stabilized": stab}})
    steps.append({"op": "svd", "in": [src], "out": [f"u{tag}", f"s{tag}", f"vh{tag}"], "args": {}, "entry": ent})
    steps.append({"op": "observe", "in": [src, f"u{tag}", f"s{tag}", f"vh{tag}"], "out": [f"os{tag}"],
                  "args": {"what": "svd"}})
    steps.append({"op": "observe", "in": [src, f"s{tag}"], "out": [f"osp{tag}"], "args": {"what": "spectrum"}})
    if exact:
        steps.append({"op": "matmul", "in": [f"q{tag}", f"r{tag}"], "out": [f"qr{tag}"], "args": {}})
        steps.append(rel("same", "C11.qr.reconstructs", src, f"qr{tag}"))
        steps.append({"op": "multiply_diagonal", "in": [f"vh{tag}", f"s{tag}"], "out": [f"svh{tag}"], "args": {"axis": 0}})
        steps.append({"op": "matmul", "in": [f"u{tag}", f"svh{tag}"], "out": [f"usv{tag}"], "args": {}})
        steps.append(rel("same", "C11.svd.reconstructs", src, f"usv{tag}"))
        steps.append({"op": "multiply_diagonal", "in": [f"u{tag}", f"s{tag}"], "out": [f"us{tag}"], "args": {"axis": 1}})
        steps.append({"op": "matmul", "in": [f"us{tag}", f"vh{tag}"], "out": [f"usv2{tag}"], "args": {}})
        steps.append(rel("same", "C11.svd.reconstructs.left", src, f"usv2{tag}"))
        steps.append({"op": "norm_sq", "in": [src], "out": [f"n2{tag}"], "args": {}})
        steps.append(rel("norm2", "C12.norm_equals_dense", f"n2{tag}", src))


def eigh_steps(rng, steps, src="h", exact=True, kind="abelian"):
    ent = rng.choice(["symmray", "autoray"])
    steps.append({"op": "eigh", "in": [src], "out": ["w", "v"], "args": {}, "entry": ent})
    steps.append({"op": "observe", "in": [src, "w", "v"], "out": ["oe"], "args": {"what": "eigh"}})
    if kind == "abelian":
        # (fermionic eigenvalues carry the inner-index sign in odd sectors by design; C12 speaks of abelian ones)
        steps.append({"op": "observe", "in": [src, "w"], "out": ["oev"], "args": {"what": "eigvals"}})
    if exact:
        steps.append({"op": "multiply_diagonal", "in": ["v", "w"], "out": ["vw"], "args": {"axis": 1}})
        steps.append({"op": "dagger", "in": ["v"], "out": ["vH"], "args": {}})
        steps.append({"op": "matmul", "in": ["vw", "vH"], "out": ["vwv"], "args": {}})
        steps.append(rel("same", "C11.eigh.reconstructs", src, "vwv"))


def solve_steps(rng, steps, kind, even_matrix=False):
    steps.append({"op": "matmul", "in": ["A", "x0"], "out": ["b"], "args": {}})
    steps.append({"op": "solve", "in": ["A", "b"], "out": ["xs"], "args": {}, "entry": rng.choice(["symmray", "autoray"])})
    steps.append({"op": "matmul", "in": ["A", "xs"], "out": ["Axs"], "args": {}})
    steps.append(rel("same", "C11.solve.satisfies", "Axs", "b"))
    steps.append({"op": "observe", "in": ["A", "b", "xs"], "out": ["oso"], "args": {"what": "solve"}})
    # (the matrices are invertible on their stored sectors: the solution is the vector the right-hand side was made from,
    # labels included - for odd-parity fermionic matrices since the repair of F15)
    steps.append(rel("same", "C12.solve.equals_dense_solution", "xs", "x0"))
    if kind == "abelian":
        steps.append({"op": "observe", "in": ["A", "b", "xs"], "out": ["osd"], "args": {"what": "solution"}})


def programs(seed, n, syms=gen.SYMS, kinds=("abelian", "fermionic"), tids=None, lazy_only=False):
    tids = tids or gen.Tids()
    progs = []
    for i in range(n):
        rng = gen.rng_for(seed, "linalg", i)
        sym = syms[i % len(syms)]
        kind = kinds[(i // len(syms)) % len(kinds)]
        family = rng.choice(["monomial", "monomial", "monomial_deficient", "float", "float_fused", "float_tall"])
        dtype = rng.choice(["float64", "float64", "complex128", "float32"]) if family.startswith("float") else "float64"
        inputs, steps = {}, []
        if family == "float_fused":
            rank = rng.randint(3, 4)
            t = gen.rand_array(rng, sym, rank, kind, dtype=dtype, sparse=0.3, maxc=2, phases=0.3 if kind == "fermionic" else 0,
                               oddpos=rng.randint(1, 9))
            t["fill"]["float"] = True
            inputs["t"] = t
            axes = list(range(rank))
            rng.shuffle(axes)
            k = rng.randint(1, rank - 1)
            steps.append({"op": "fuse", "in": ["t"], "out": ["x"], "args": {"groups": [axes[:k], axes[k:]]}})
            decomposition_steps(rng, kind, steps, "x", exact=False)
        elif family == "float_tall":
            # very tall blocks (24-40 rows, 2-3 columns) with singular values 1, 1e-3, 1e-6: condition number 1e6
            xx = matrix(rng, sym, kind, pattern="monomial", dtype=rng.choice(["float64", "complex128"]), maxc=2, sparse=0.0)
            for e in xx["ix"][0]["cm"]:
                e["d"] = rng.randint(24, 40)
            for e in xx["ix"][1]["cm"]:
                e["d"] = rng.randint(2, 3)
            xx["fill"] = {"start": rng.randint(1, 9), "step": 1, "pattern": "illcond"}
            xx["drop"] = []
            inputs["x"] = xx
            decomposition_steps(rng, kind, steps, "x", exact=False)
        else:
            inputs["x"] = matrix(rng, sym, kind, pattern=family if family != "float" else "monomial",
                                 floaty=(family == "float"), dtype=dtype)
            if rng.random() < 0.35:
                # some stored blocks are identically zero (e.g. after exact cancellation)
                inputs["x"]["fill"]["zero_every"] = rng.choice([2, 3])
            decomposition_steps(rng, kind, steps, "x", exact=(family != "float"))
        # hermitian charge-zero matrix for eigh
        fl = rng.random() < 0.3
        inputs["h"] = matrix(rng, sym, kind, hermitian=True, floaty=False, dtype="float64", start=rng.randint(1, 5))
        eigh_steps(rng, steps, "h", exact=True, kind=kind)
        # linear system with square invertible blocks
        A = matrix(rng, sym, kind, pattern="monomial_square", full=True, dtype="float64", start=2)
        inputs["A"] = A
        # (a real matrix with a complex right-hand side as well: the solution takes the element type of both)
        x0 = gen.rand_array(rng, sym, 1, kind, ixs=[gen.conj_index(A["ix"][1])],
                            dtype="complex128" if rng.random() < 0.4 else "float64", sparse=0.3,
                            phases=0.4 if kind == "fermionic" else 0.0, oddpos=rng.randint(11, 19), start=1)
        inputs["x0"] = x0
        solve_steps(rng, steps, kind, even_matrix=gen.D.parity(sym, tuple(A["charge"])) == 0)
        # the zero matrix (no stored block) and a zero vector: norm 0
        zm = dict(inputs["h"], drop=list(range(len(gen.D.valid_sectors(sym, inputs["h"]["ix"], tuple(inputs["h"]["charge"]))))))
        zm.pop("phases", None)
        inputs["zm"] = zm
        for ent in ("method", "symmray", "autoray"):
            steps.append({"op": "norm_sq", "in": ["zm"], "out": [f"nz_{ent[0]}"], "args": {}, "entry": ent})
        steps.append({"op": "norm", "in": ["zm"], "out": ["nzn"], "args": {}})
        progs.append({"tid": tids(), "inputs": inputs, "steps": steps})
    return progs


CUTS_ABS = [[1, 4], [1, 1], [3, 1], [8, 1], [20, 1], [60, 1], [200, 1], [1000, 1], [100000, 1]]
CUTS_REL = [[1, 1024], [1, 64], [1, 8], [1, 4], [1, 2], [3, 4], [1, 1], [3, 2], [4, 1]]


def trunc_programs(seed, n, syms=gen.SYMS, kinds=("abelian", "fermionic"), tids=None):
    tids = tids or gen.Tids()
    progs = []
    for i in range(n):
        rng = gen.rng_for(seed, "trunc", i)
        sym = syms[i % len(syms)]
        kind = kinds[(i // len(syms)) % len(kinds)]
        x = matrix(rng, sym, kind, pattern=rng.choice(["monomial", "monomial", "monomial_deficient"]),
                   square_vals=True, maxc=3, maxd=3, start=rng.randint(1, 3), sparse=0.15)
        if rng.random() < 0.6:
            # make every index carry several charges of size 2-3: up to nine singular values
            for ix in x["ix"]:
                for e in ix["cm"]:
                    e["d"] = max(e["d"], rng.randint(2, 3))
        steps = [{"op": "svd", "in": ["x"], "out": ["u", "s", "vh"], "args": {}}]
        mode = 1 + i % 6
        cuts = CUTS_ABS if mode in (1, 3, 5) else CUTS_REL
        if mode == 3:
            cuts = [[c[0] * c[0], c[1] * c[1]] for c in cuts]
        chosen = sorted(rng.sample(range(len(cuts)), 4))
        prev = None
        for j in chosen:
            mb = rng.choice([-1, 1, 2, 3, 4, 5, 6])
            base = {"cutoff": cuts[j], "cutoff_mode": mode, "max_bond": mb}
            tag = f"c{j}"
            steps.append({"op": "svd_truncated", "in": ["x"], "out": [f"U{tag}", f"S{tag}", f"V{tag}"],
                          "args": dict(base, absorb="none")})
            # reconstruction error = discarded weight
            steps.append({"op": "multiply_diagonal", "in": [f"V{tag}", f"S{tag}"], "out": [f"SV{tag}"], "args": {"axis": 0}})
            steps.append({"op": "matmul", "in": [f"U{tag}", f"SV{tag}"], "out": [f"P{tag}"], "args": {}})
            steps.append({"op": "neg", "in": [f"P{tag}"], "out": [f"nP{tag}"], "args": {}})
            steps.append({"op": "add", "in": ["x", f"nP{tag}"], "out": [f"D{tag}"], "args": {}})
            steps.append({"op": "norm_sq", "in": [f"D{tag}"], "out": [f"E{tag}"], "args": {}})
            steps.append({"op": "rel", "in": [f"E{tag}", "s", f"S{tag}"], "out": [],
                          "args": {"how": "trunc_error", "clause": "C13.error_is_discarded_weight"}})
            for ab in (-1, 0, 1):
                t2 = f"{tag}a{ab + 1}"
                steps.append({"op": "svd_truncated", "in": ["x"], "out": [f"U{t2}", f"S{t2}", f"V{t2}"],
                              "args": dict(base, absorb=ab)})
                steps.append({"op": "matmul", "in": [f"U{t2}", f"V{t2}"], "out": [f"P{t2}"], "args": {}})
                steps.append(rel("same", "C13.absorb_options_agree", f"P{tag}", f"P{t2}"))
        # monotone in the cutoff (same bond limit): a larger cutoff never keeps more
        mb = rng.choice([-1, 2, 4])
        ladder = []
        for j in range(len(cuts)):
            tag = f"m{j}"
            steps.append({"op": "svd_truncated", "in": ["x"], "out": [f"U{tag}", f"S{tag}", f"V{tag}"],
                          "args": {"cutoff": cuts[j], "cutoff_mode": mode, "max_bond": mb, "absorb": "none"}})
            ladder.append(f"S{tag}")
        for a, b in zip(ladder[1:], ladder[:-1]):
            steps.append(rel("vec_prefix", "C13.monotone_in_cutoff", a, b))
        # no cutoff: the bond limit alone
        for mbb in (1, 2, 3, 4, 6, 9, 20):
            tag = f"b{mbb}"
            steps.append({"op": "svd_truncated", "in": ["x"], "out": [f"U{tag}", f"S{tag}", f"V{tag}"],
                          "args": {"max_bond": mbb, "absorb": "none"}})
        progs.append({"tid": tids(), "inputs": {"x": x}, "steps": steps})
    # float matrices: structure only
    for i in range(n // 3):
        rng = gen.rng_for(seed, "truncf", i)
        sym = syms[i % len(syms)]
        kind = kinds[(i // len(syms)) % len(kinds)]
        x = matrix(rng, sym, kind, floaty=True, dtype=rng.choice(["float64", "complex128"]))
        steps = []
        for j in range(5):
            args = {"cutoff": rng.choice(CUTS_REL), "cutoff_mode": rng.randint(1, 6), "max_bond": rng.choice([-1, 1, 2, 4]),
                    "absorb": rng.choice([-1, 0, 1, "none"])}
            if rng.random() < 0.3:
                del args["cutoff"]
            steps.append({"op": "svd_truncated", "in": ["x"], "out": [f"U{j}", f"S{j}", f"V{j}"], "args": args})
        progs.append({"tid": tids(), "inputs": {"x": x}, "steps": steps})
    return progs


def lazy_linalg_programs(seed, n, syms=gen.SYMS, tids=None):
    """C09: decompositions of a lazily signed fermionic matrix and of its synchronised copy."""
    from .lazy import lazy_prefix

    tids = tids or gen.Tids()
    progs = []
    for i in range(n):
        rng = gen.rng_for(seed, "lazylinalg", i)
        sym = syms[i % len(syms)]
        inputs = {"x0": matrix(rng, sym, "fermionic", pattern="monomial", phases=0.5)}
        steps, lazy = lazy_prefix(rng, 2, rng.randint(1, 3))
        steps.append({"op": "phase_sync", "in": [lazy], "out": ["xs"], "args": {}})
        for tag, src in (("L", lazy), ("S", "xs")):
            steps.append({"op": "qr", "in": [src], "out": [f"q{tag}", f"r{tag}"], "args": {}})
            steps.append({"op": "matmul", "in": [f"q{tag}", f"r{tag}"], "out": [f"qr{tag}"], "args": {}})
            steps.append({"op": "svd", "in": [src], "out": [f"u{tag}", f"s{tag}", f"vh{tag}"], "args": {}})
            steps.append({"op": "svd_truncated", "in": [src], "out": [f"tu{tag}", f"ts{tag}", f"tv{tag}"],
                          "args": {"max_bond": 2, "absorb": -1}})
            steps.append({"op": "matmul", "in": [f"tu{tag}", f"tv{tag}"], "out": [f"tp{tag}"], "args": {}})
        steps.append(rel("same", "C09.twin.qr_product", "qrL", "qrS"))
        steps.append(rel("same", "C09.twin.svd_values", "sL", "sS"))
        steps.append(rel("same", "C09.twin.svd_truncated_product", "tpL", "tpS"))
        # eigh on a hermitian matrix, solve
        inputs["h0"] = matrix(rng, sym, "fermionic", hermitian=True, phases=0.0)
        for j, op in enumerate(rng.sample(["phase_global", "phase_flip0", "phase_flip1", "phase_flip01"], 2)):
            pass
        steps.append({"op": "phase_global", "in": ["h0"], "out": ["h1"], "args": {}})
        steps.append({"op": "phase_sync", "in": ["h1"], "out": ["h2"], "args": {}})
        steps.append({"op": "phase_global", "in": ["h2"], "out": ["hl"], "args": {}})   # == h0, lazily
        for tag, src in (("L", "hl"), ("S", "h0")):
            steps.append({"op": "eigh", "in": [src], "out": [f"w{tag}", f"v{tag}"], "args": {}})
            steps.append({"op": "multiply_diagonal", "in": [f"v{tag}", f"w{tag}"], "out": [f"vw{tag}"], "args": {"axis": 1}})
            steps.append({"op": "dagger", "in": [f"v{tag}"], "out": [f"vH{tag}"], "args": {}})
            steps.append({"op": "matmul", "in": [f"vw{tag}", f"vH{tag}"], "out": [f"rec{tag}"], "args": {}})
        steps.append(rel("same", "C09.twin.eigh_values", "wL", "wS"))
        steps.append(rel("same", "C09.twin.eigh_reconstruction", "recL", "recS"))
        A = matrix(rng, sym, "fermionic", pattern="monomial_square", full=True, phases=0.0, start=2)
        inputs["A0"] = A
        inputs["b0"] = gen.rand_array(rng, sym, 1, "fermionic", ixs=[dict(A["ix"][0])], sparse=0.2,
                                      phases=0.0, oddpos=15, start=1)
        inputs["b0"]["fill"]["mod"] = 1   # entries +-1... keep solutions integral where possible
        steps.append({"op": "phase_flip", "in": ["A0"], "out": ["A1"], "args": {"axs": [0]}})
        steps.append({"op": "phase_sync", "in": ["A1"], "out": ["A2"], "args": {}})
        steps.append({"op": "phase_flip", "in": ["A2"], "out": ["Al"], "args": {"axs": [0]}})  # == A0, lazily
        for tag, src in (("L", "Al"), ("S", "A0")):
            steps.append({"op": "solve", "in": [src, "b0"], "out": [f"x{tag}"], "args": {}})
            steps.append({"op": "matmul", "in": [src, f"x{tag}"], "out": [f"Ax{tag}"], "args": {}})
        steps.append(rel("same", "C09.twin.solve_residual", "AxL", "AxS"))
        progs.append({"tid": tids(), "inputs": inputs, "steps": steps})
    return progs


def dtype_programs(seed, n, syms=gen.SYMS, kinds=("abelian", "fermionic"), tids=None):
    """C20: every decomposition in the four element types - matrices with charges of size one (degenerate
    1x1 sectors) and larger ones, hermitian matrices stored with a complex element type, truncations."""
    tids = tids or gen.Tids()
    progs = []
    for i in range(n):
        rng = gen.rng_for(seed, "linalg-dtype", i)
        sym = syms[i % len(syms)]
        kind = kinds[(i // len(syms)) % len(kinds)]
        dtype = gen.DTYPES[(i // (len(syms) * len(kinds))) % len(gen.DTYPES)]
        x = matrix(rng, sym, kind, pattern=rng.choice(["monomial", "monomial_deficient"]), dtype=dtype, maxd=3, sparse=0.2)
        # at least one charge of size one and, when there are several, one larger
        for ix in x["ix"]:
            ix["cm"][0]["d"] = 1
            if len(ix["cm"]) > 1:
                ix["cm"][-1]["d"] = rng.randint(2, 3)
        h = matrix(rng, sym, kind, hermitian=True, dtype=dtype, start=rng.randint(1, 5), maxd=3)
        h["ix"][0]["cm"][0]["d"] = 1
        h["ix"][1] = gen.conj_index(h["ix"][0])
        steps = []
        ent = rng.choice(["symmray", "autoray"])
        steps.append({"op": "qr", "in": ["x"], "out": ["q", "r"], "args": {"stabilized": rng.random() < 0.5}, "entry": ent})
        steps.append({"op": "svd", "in": ["x"], "out": ["u", "s", "vh"], "args": {}, "entry": ent})
        steps.append({"op": "eigh", "in": ["h"], "out": ["w", "v"], "args": {}, "entry": ent})
        for k, a in enumerate(({"max_bond": 2, "absorb": "none"}, {"cutoff": [1, 2], "cutoff_mode": 1, "absorb": 0},
                               {"max_bond": 1, "absorb": -1})):
            steps.append({"op": "svd_truncated", "in": ["x"], "out": [f"tu{k}", f"ts{k}", f"tv{k}"], "args": a})
        steps.append({"op": "norm", "in": ["x"], "out": ["nx"], "args": {}})
        steps.append({"op": "multiply_diagonal", "in": ["vh", "s"], "out": ["svh"], "args": {"axis": 0}})
        steps.append({"op": "multiply_diagonal", "in": ["v", "w"], "out": ["vw"], "args": {"axis": 1}})
        # operands of DIFFERENT element types: products take the common type (a real array scaled by complex weights, ...)
        from .algebra import vector_desc
        other = {"float32": "complex64", "float64": "complex128", "complex64": "float32", "complex128": "float64"}[dtype]
        g = vector_desc(rng, sym, ix=x["ix"][0], start=3, dtype=other)
        y = dict(x, dtype=other, fill={"start": 40, "step": 1, "alt": True})
        for ent in ("method", "symmray", "autoray"):
            steps.append({"op": "multiply_diagonal", "in": ["x", "g"], "out": [f"xg_{ent[0]}"], "args": {"axis": 0}, "entry": ent})
        steps.append({"op": "mul", "in": ["x", "y"], "out": ["xy"], "args": {}})
        steps.append({"op": "conj", "in": ["y"], "out": ["yc"], "args": {}})
        steps.append({"op": "tensordot", "in": ["x", "yc"], "out": ["xyc"], "args": {"axes": [[0, 1], [0, 1]], "preserve_array": True}, "entry": "symmray"})
        progs.append({"tid": tids(), "inputs": {"x": x, "h": h, "g": g, "y": y}, "steps": steps})
    return progs
