"""C08: structural, elementwise and arithmetic operations of abelian arrays and
block vectors, through the three entry points."""
from .. import gen
from .fuse import rel

ENTRIES = ("method", "symmray", "autoray")


def three(steps, op, ins, args, base, entries=ENTRIES, exact=True):
    """The same call through every entry point + agreement clauses."""
    outs = []
    for e in entries:
        o = f"{base}_{e[0]}"
        steps.append({"op": op, "in": ins, "out": [o], "args": dict(args), "entry": e})
        outs.append(o)
    steps.append({"op": "rel", "in": [], "out": [], "args": {"how": "all_or_none", "names": outs,
                                                             "clause": f"C08.entry_points.{op}.outcome"}})
    for o in outs[1:]:
        steps.append(rel("bits", f"C08.entry_points.{op}", outs[0], o))
    return outs


def vector_desc(rng, sym, ix=None, drop=0, start=1, dtype="float64", squares=False):
    if ix is None:
        ix = gen.rand_index(rng, sym)
    blocks = [{"c": e["c"], "d": e["d"]} for e in ix["cm"]]
    if drop and len(blocks) > 1:
        blocks = [b for i, b in enumerate(blocks) if i != rng.randrange(len(blocks))]
    return {"kind": "vector", "sym": sym, "blocks": blocks, "dtype": dtype,
            "fill": {"start": start, "step": 1, "alt": not squares}}


def array_programs(seed, n, syms=gen.SYMS, tids=None):
    tids = tids or gen.Tids()
    progs = []
    for i in range(n):
        rng = gen.rng_for(seed, "alg", i)
        sym = syms[i % len(syms)]
        rank = rng.randint(1, 3)
        dtype = rng.choice(["float64", "complex128", "float32"])
        x = gen.rand_array(rng, sym, rank, "abelian", dtype=dtype, sparse=0.5, unit_prob=0.2)
        if rng.random() < 0.3:
            # one axis with a SINGLE charge (zero) but more than one element: not a unit axis
            ixs = [dict(ix) for ix in x["ix"]]
            ixs[rng.randrange(rank)] = {"dual": rng.random() < 0.5, "cm": [{"c": [0, 0], "d": rng.randint(2, 3)}]}
            x = gen.rand_array(rng, sym, rank, "abelian", ixs=ixs, dtype=dtype, sparse=0.4)
        # partner with the same indices/charge but a different set of stored sectors
        y = dict(x)
        nsec = len(gen.D.valid_sectors(sym, x["ix"], tuple(x["charge"])))
        y["drop"] = sorted(rng.sample(range(nsec), rng.randint(0, max(0, nsec - 1)))) if nsec else []
        y["fill"] = {"start": 30, "step": 1, "alt": True}
        steps = []
        perm = list(range(rank))
        rng.shuffle(perm)
        three(steps, "transpose", ["x"], {"axes": perm}, "tr")
        three(steps, "conj", ["x"], {}, "cj")
        steps.append({"op": "dagger", "in": ["x"], "out": ["dg"], "args": {}})
        steps.append({"op": "H", "in": ["x"], "out": ["dgH"], "args": {}})
        ax = rng.randint(0, rank)
        three(steps, "expand_dims", ["x"], {"axis": ax}, "ex")
        steps.append({"op": "expand_dims", "in": ["x"], "out": ["exn"], "args": {"axis": -1 - rng.randint(0, rank)}})
        unit0 = [k for k, ixd in enumerate(x["ix"]) if len(ixd["cm"]) == 1 and ixd["cm"][0]["d"] == 1
                 and tuple(ixd["cm"][0]["c"]) == (0, 0)]
        units = [k for k, ixd in enumerate(x["ix"]) if len(ixd["cm"]) == 1 and ixd["cm"][0]["d"] == 1]
        if unit0:
            three(steps, "squeeze", ["x"], {"axis": [rng.choice(unit0)]}, "sq")
            three(steps, "squeeze", ["x"], {"axis_int": unit0[0]}, "sqi")
        # a unit axis in front, then only THAT axis squeezed (axis = 0) while other unit axes may remain
        steps.append({"op": "expand_dims", "in": ["x"], "out": ["ex0"], "args": {"axis": 0}})
        steps.append({"op": "expand_dims", "in": ["ex0"], "out": ["ex00"], "args": {"axis": rank + 1}})
        three(steps, "squeeze", ["ex00"], {"axis_int": 0}, "sq0")
        if units == unit0:
            # (also when there is nothing to squeeze: the result is then the array itself)
            three(steps, "squeeze", ["x"], {"axis_none": True}, "sqa")
        three(steps, "squeeze", ["ex_m"], {"axis": [ax]}, "sqe")
        k = rng.choice([2, 3, -2])
        steps.append({"op": "smul", "in": ["x"], "out": ["sm"], "args": {"k": [k, 1 if "complex" in dtype else 0]}})
        steps.append({"op": "rsmul", "in": ["x"], "out": ["rsm"], "args": {"k": [k, 0]}})
        steps.append({"op": "sdiv", "in": ["sm"], "out": ["sd"], "args": {"k": [k, 1 if "complex" in dtype else 0]}})
        steps.append({"op": "neg", "in": ["x"], "out": ["ng"], "args": {}})
        for op in ("add", "sub", "mul"):
            steps.append({"op": op, "in": ["x", "y"], "out": [f"b_{op}"], "args": {}})
            steps.append({"op": op, "in": ["y", "x"], "out": [f"b_{op}_r"], "args": {}})
        steps.append({"op": "add", "in": ["x", "x"], "out": ["xx"], "args": {}})
        # repeated in-place accumulation of an operand with other stored sectors = the out-of-place sums
        steps.append({"op": "copy", "in": ["x"], "out": ["acc"], "args": {}})
        steps.append({"op": "add", "in": ["x", "y"], "out": ["s1"], "args": {}})
        steps.append({"op": "add", "in": ["s1", "y"], "out": ["s2"], "args": {}})
        steps.append({"op": "add", "in": ["s2", "y"], "out": ["s3"], "args": {}})
        for _k in range(3):
            steps.append({"op": "iadd", "in": ["acc", "y"], "out": ["acc"], "args": {}})
        steps.append(rel("same", "C08.inplace_accumulation", "acc", "s3"))
        steps.append({"op": "copy", "in": ["s1"], "out": ["acc2"], "args": {}})
        steps.append({"op": "isub", "in": ["acc2", "s1"], "out": ["acc2"], "args": {}})
        steps.append({"op": "add", "in": ["x", "y"], "out": ["s1again"], "args": {}})
        steps.append(rel("same", "C08.operands_reusable", "s1", "s1again"))
        three(steps, "sum", ["x"], {}, "su")
        three(steps, "norm_sq", ["x"], {}, "nn")
        three(steps, "abs", ["x"], {}, "ab")
        three(steps, "max", ["x"], {}, "mx")
        three(steps, "min", ["x"], {}, "mn")
        three(steps, "isfinite", ["x"], {}, "fin")
        three(steps, "clip", ["x"], {"a_min": -3, "a_max": 3}, "cl")
        for fn in ("log", "log2", "log10"):
            three(steps, fn, ["x"], {}, fn)
        three(steps, "sqrt", ["xsq"], {}, "sr")
        # multiply_diagonal with a vector that may miss charges
        dax = rng.randrange(rank)
        v = vector_desc(rng, sym, ix=x["ix"][dax], drop=rng.random() < 0.5, start=2, dtype=dtype)
        three(steps, "multiply_diagonal", ["x", "v"], {"axis": dax}, "md")
        steps.append({"op": "multiply_diagonal", "in": ["x", "v"], "out": ["mdn"], "args": {"axis": dax - rank}})
        three(steps, "to_dense", ["x"], {}, "dn", entries=("method",))
        xsq = dict(x)
        xsq["dtype"] = "float64"
        xsq["fill"] = {"start": 1, "step": 1, "alt": False, "square": True}
        progs.append({"tid": tids(), "inputs": {"x": x, "y": y, "v": v, "xsq": xsq}, "steps": steps})
    return progs


def diag_programs(seed, n, syms=gen.SYMS, tids=None):
    """multiply_diagonal with vectors that miss one or two charges of the axis (any position in the table,
    blocks of equal size), through every entry point and axis form."""
    tids = tids or gen.Tids()
    progs = []
    for i in range(n):
        rng = gen.rng_for(seed, "diag", i)
        sym = syms[i % len(syms)]
        rank = rng.randint(1, 3)
        dtype = rng.choice(["float64", "complex128"])
        d = rng.randint(1, 2)
        pool = gen.CHARGE_POOL[sym]
        ixs = []
        for k in range(rank):
            cs = sorted(rng.sample(pool, min(len(pool), 3)))
            ixs.append({"dual": rng.random() < 0.5, "cm": [{"c": list(c), "d": d} for c in cs]})
        x = gen.rand_array(rng, sym, rank, "abelian", ixs=ixs, dtype=dtype, sparse=0.3)
        steps = []
        inputs = {"x": x}
        for j in range(3):
            ax = rng.randrange(rank)
            cm = x["ix"][ax]["cm"]
            keep = [e for e in cm]
            for _ in range(rng.randint(1, 2)):
                if len(keep) > 1:
                    keep.pop(rng.randrange(len(keep)) if rng.random() < 0.5 else len(keep) - 1)
            v = {"kind": "vector", "sym": sym, "blocks": [{"c": e["c"], "d": e["d"]} for e in keep], "dtype": dtype,
                 "fill": {"start": 2 + j, "step": 1, "alt": True}}
            inputs[f"v{j}"] = v
            three(steps, "multiply_diagonal", ["x", f"v{j}"], {"axis": ax}, f"md{j}")
            steps.append({"op": "multiply_diagonal", "in": ["x", f"v{j}"], "out": [f"mdi{j}"], "args": {"axis": ax, "inplace": False}})
        progs.append({"tid": tids(), "inputs": inputs, "steps": steps})
    return progs


def vector_programs(seed, n, syms=gen.SYMS, tids=None):
    tids = tids or gen.Tids()
    progs = []
    for i in range(n):
        rng = gen.rng_for(seed, "vec", i)
        sym = syms[i % len(syms)]
        dtype = rng.choice(["float64", "complex128", "float32"])
        ix = gen.rand_index(rng, sym)
        v = vector_desc(rng, sym, ix=ix, start=2, dtype=dtype)
        w = vector_desc(rng, sym, ix=ix, start=11, dtype=dtype)
        u = vector_desc(rng, sym, ix=ix, drop=1, start=21, dtype=dtype)
        sq = vector_desc(rng, sym, ix=ix, start=1, dtype="float64", squares=True)
        sq["fill"]["square"] = True
        steps = []
        for op in ("add", "sub", "mul"):
            steps.append({"op": op, "in": ["v", "w"], "out": [f"b_{op}"], "args": {}})
            steps.append({"op": op, "in": ["v", "u"], "out": [f"u_{op}"], "args": {}})
        steps.append({"op": "mul", "in": ["v", "w"], "out": ["vw"], "args": {}})
        steps.append({"op": "truediv", "in": ["vw", "w"], "out": ["vwd"], "args": {}})
        kk = [rng.choice([2, 3, -2]), 0]
        for op in ("smul", "rsmul", "sadd", "rsadd", "ssub", "rssub"):
            steps.append({"op": op, "in": ["v"], "out": [f"s_{op}"], "args": {"k": kk}})
        steps.append({"op": "sdiv", "in": ["s_smul"], "out": ["s_sdiv"], "args": {"k": kk}})
        steps.append({"op": "spow", "in": ["v"], "out": ["s_pow"], "args": {"k": [2, 0]}})
        steps.append({"op": "neg", "in": ["v"], "out": ["ng"], "args": {}})
        steps.append({"op": "copy", "in": ["v"], "out": ["cp"], "args": {}})
        for fn in ("abs", "sum", "max", "min", "isfinite", "log", "log2", "log10"):
            three(steps, fn, ["v"], {}, fn)
        three(steps, "clip", ["v"], {"a_min": -3, "a_max": 3}, "cl")
        three(steps, "sqrt", ["sq"], {}, "sr")
        three(steps, "norm_sq", ["v"], {}, "nn", entries=("method",))
        steps.append({"op": "to_dense", "in": ["v"], "out": ["dn"], "args": {}})
        # in-place forms
        steps.append({"op": "copy", "in": ["v"], "out": ["vc"], "args": {}})
        steps.append({"op": "iadd", "in": ["vc", "w"], "out": ["vc"], "args": {}})
        steps.append(rel("same", "C08.vector.iadd_equals_add", "vc", "b_add"))
        steps.append({"op": "add", "in": ["b_add", "w"], "out": ["b_add2"], "args": {}})
        steps.append({"op": "iadd", "in": ["vc", "w"], "out": ["vc"], "args": {}})
        steps.append(rel("same", "C08.vector.inplace_accumulation", "vc", "b_add2"))
        steps.append({"op": "add", "in": ["v", "w"], "out": ["b_add_again"], "args": {}})
        steps.append(rel("same", "C08.vector.operands_reusable", "b_add", "b_add_again"))
        progs.append({"tid": tids(), "inputs": {"v": v, "w": w, "u": u, "sq": sq}, "steps": steps})
    return progs


def mixed_programs(seed, n, syms=gen.SYMS, tids=None, kinds=("abelian",), norm_clause=None):
    """Arrays whose blocks have DIFFERENT element types: a real array plus a complex one that stores fewer sectors
    (possibly not the first).  Every unary operation and reduction on the sum must treat each block by its own type."""
    tids = tids or gen.Tids()
    progs = []
    for i in range(n):
        rng = gen.rng_for(seed, "mixed", i)
        sym = syms[i % len(syms)]
        kind = kinds[i % len(kinds)]
        rank = rng.randint(1, 3)
        x = gen.rand_array(rng, sym, rank, kind, dtype=rng.choice(["float64", "float32"]), sparse=0.0, minc=2, oddpos=3)
        x["drop"] = []
        nsec = len(gen.D.valid_sectors(sym, x["ix"], tuple(x["charge"])))
        z = dict(x)
        z["dtype"] = "complex128" if x["dtype"] == "float64" else "complex64"
        z["fill"] = {"start": 20, "step": 1, "alt": True}
        k = rng.randint(1, max(1, nsec - 1)) if nsec > 1 else 0
        z["drop"] = sorted(set([0] if rng.random() < 0.6 and nsec > 1 else []) | set(rng.sample(range(nsec), k))) if nsec > 1 else []
        if len(z["drop"]) >= nsec and nsec:
            z["drop"] = z["drop"][:-1]
        steps = [{"op": "add", "in": ["x", "z"], "out": ["m"], "args": {}},
                 {"op": "add", "in": ["z", "x"], "out": ["mr"], "args": {}}]
        for src in ("m", "mr"):
            three(steps, "conj", [src], {}, f"cj{src}")
            steps.append({"op": "dagger", "in": [src], "out": [f"dg{src}"], "args": {}})
            steps.append({"op": "H", "in": [src], "out": [f"H{src}"], "args": {}})
            perm = list(range(rank))
            rng.shuffle(perm)
            steps.append({"op": "transpose", "in": [src], "out": [f"tr{src}"], "args": {"axes": perm}})
            steps.append({"op": "neg", "in": [src], "out": [f"ng{src}"], "args": {}})
            steps.append({"op": "smul", "in": [src], "out": [f"sm{src}"], "args": {"k": [2, 1]}})
            three(steps, "norm_sq", [src], {}, f"nn{src}")
            three(steps, "sum", [src], {}, f"su{src}")
            three(steps, "abs", [src], {}, f"ab{src}")
            steps.append({"op": "to_dense", "in": [src], "out": [f"dn{src}"], "args": {}})
            steps.append({"op": "sub", "in": [src, "z"], "out": [f"sb{src}"], "args": {}})
            steps.append({"op": "mul", "in": [src, "z"], "out": [f"ml{src}"], "args": {}})
            if norm_clause:
                steps.append({"op": "rel", "in": [f"nn{src}_m", src], "out": [], "args": {"how": "norm2", "clause": norm_clause}})
        progs.append({"tid": tids(), "inputs": {"x": x, "z": z}, "steps": steps})
    return progs
