"""Programs for fuse / unfuse / reshape (C05, C06, C07)."""
from .. import gen


def layout(rank, groups):
    flat = [a for g in groups for a in g]
    pos = min(flat)
    before = [a for a in range(pos) if a not in flat]
    after = [a for a in range(pos, rank) if a not in flat]
    perm = before + flat + after
    fused = [len(before) + g for g, grp in enumerate(groups) if len(grp) > 1]
    return perm, fused, len(before)


def rand_groups(rng, rank, maxgroups=2, allow_single=True):
    axes = list(range(rank))
    rng.shuffle(axes)
    ng = rng.randint(1, maxgroups)
    groups = []
    for g in range(ng):
        if not axes:
            break
        lo = 1 if allow_single and (g > 0 or rng.random() < 0.15) else 2
        k = rng.randint(lo, max(lo, min(3, len(axes))))
        if k > len(axes):
            break
        groups.append([axes.pop() for _ in range(k)])
        if rng.random() < 0.5:
            groups[-1].sort()
    if not groups or all(len(g) == 1 for g in groups) and rng.random() < 0.7:
        if rank >= 2:
            a = rng.sample(range(rank), 2)
            groups = [a]
    return groups


def inverse(perm):
    inv = [0] * len(perm)
    for i, p in enumerate(perm):
        inv[p] = i
    return inv


def rel(how, clause, *regs):
    return {"op": "rel", "in": list(regs), "out": [], "args": {"how": how, "clause": clause}}


def fuse_program(rng, tid, sym, kind, cfg=None, dtype="float64", maxrank=4):
    rank = rng.randint(2, maxrank)
    rich = rng.random() < 0.5   # every index with several charges: many sectors, so that fused blocks are assembled from several pieces
    x = gen.rand_array(rng, sym, rank, kind, dtype=dtype, sparse=0.6, maxc=2 if rank == 4 else 3,
                       phases=0.4 if kind == "fermionic" else 0.0, unit_prob=0.0 if rich else 0.1,
                       minc=2 if rich else 1, maxd=1 if (rich and rank == 4) else 2)
    groups = rand_groups(rng, rank)
    perm, fused, nb = layout(rank, groups)
    steps = []
    if kind == "abelian":
        steps.append({"op": "fuse", "in": ["x"], "out": ["f"], "args": {"groups": groups, "mode": "insert"}})
        steps.append({"op": "fuse", "in": ["x"], "out": ["fc"], "args": {"groups": groups, "mode": "concat"}})
        steps.append({"op": "fuse", "in": ["x"], "out": ["fa"], "args": {"groups": groups},
                      "entry": rng.choice(["method", "symmray", "autoray"])})
        steps.append(rel("array_equal", "C05.strategies_agree", "f", "fc"))
        steps.append(rel("array_equal", "C05.strategies_agree.auto", "f", "fa"))
    else:
        steps.append({"op": "fuse", "in": ["x"], "out": ["f"], "args": {"groups": groups},
                      "entry": rng.choice(["method", "symmray", "autoray"])})
    # round trip: unfuse every fused axis from the right, transpose back
    cur = "f"
    for n, ax in enumerate(sorted(fused, reverse=True)):
        steps.append({"op": "unfuse", "in": [cur], "out": [f"u{n}"], "args": {"axis": ax}})
        cur = f"u{n}"
    if fused:
        steps.append({"op": "transpose", "in": [cur], "out": ["back"], "args": {"axes": inverse(perm)}})
        steps.append(rel("blocks" if kind == "abelian" else "same", "C05.roundtrip", "x", "back"))
        steps.append({"op": "unfuse_all", "in": ["f"], "out": ["ua"], "args": {}})
        # the same round trip on numbers 2**-40 times smaller (scaling by a power of two is exact)
        steps.append({"op": "scale_pow2", "in": ["x"], "out": ["xt"], "args": {"e": -40}})
        steps.append({"op": "fuse", "in": ["xt"], "out": ["ft"], "args": {"groups": groups}})
        steps.append({"op": "unfuse_all", "in": ["ft"], "out": ["uat"], "args": {}})
        steps.append({"op": "scale_pow2", "in": ["uat"], "out": ["uats"], "args": {"e": 40}})
        steps.append(rel("array_equal" if kind == "abelian" else "same", "C05.roundtrip.tiny_numbers", "ua", "uats"))
        steps.append(rel("array_equal" if kind == "abelian" else "same", "C05.unfuse_all", cur, "ua"))
        # second level: fuse a group containing the already fused axis
        frank = len(perm) - sum(len(g) - 1 for g in groups)
        if frank >= 2 and rng.random() < 0.6:
            other = rng.choice([a for a in range(frank) if a != fused[0]])
            g2 = [fused[0], other] if rng.random() < 0.5 else [other, fused[0]]
            steps.append({"op": "fuse", "in": ["f"], "out": ["ff"], "args": {"groups": [g2]}})
            p2, fused2, _ = layout(frank, [g2])
            steps.append({"op": "unfuse", "in": ["ff"], "out": ["uf"], "args": {"axis": fused2[0]}})
            steps.append({"op": "transpose", "in": ["uf"], "out": ["fback"], "args": {"axes": inverse(p2)}})
            steps.append(rel("blocks" if kind == "abelian" else "same", "C05.roundtrip.nested", "f", "fback"))
            # conjugating a leg that was fused in stages and unfusing it stage by stage = unfusing first and conjugating then
            steps.append({"op": "conj", "in": ["ff"], "out": ["ffc"], "args": {}})
            steps.append({"op": "unfuse", "in": ["ffc"], "out": ["ffc_u"], "args": {"axis": fused2[0]}})
            steps.append({"op": "unfuse_all", "in": ["ffc_u"], "out": ["ffc_uu"], "args": {}})
            steps.append({"op": "unfuse_all", "in": ["uf"], "out": ["uf_u"], "args": {}})
            steps.append({"op": "conj", "in": ["uf_u"], "out": ["uf_uc"], "args": {}})
            steps.append(rel("array_equal_den" if kind == "abelian" else "same_up_to_signs", "C05.conj_commutes_with_unfuse", "ffc_uu", "uf_uc"))
    return {"tid": tid, "inputs": {"x": x}, "steps": steps, "cfg": cfg or {}}


def single_group_programs(seed, n, syms=gen.SYMS, tids=None):
    """Several groups, one of them a single axis, on sparse arrays with many sectors: both
    strategies have to assemble fused blocks with missing pieces."""
    tids = tids or gen.Tids()
    progs = []
    for i in range(n):
        rng = gen.rng_for(seed, "fuse1", i)
        sym = syms[i % len(syms)]
        rank = rng.randint(3, 4)
        x = gen.rand_array(rng, sym, rank, "abelian", sparse=1.0, minc=2, maxc=2, maxd=2 if rank == 3 else 1,
                           dtype=gen.DTYPES[(i // len(syms)) % 4])
        axes = list(range(rank))
        rng.shuffle(axes)
        groups = [axes[:2], axes[2:3]] + ([axes[3:4]] if rank == 4 and rng.random() < 0.5 else [])
        rng.shuffle(groups)
        steps = [{"op": "fuse", "in": ["x"], "out": ["f"], "args": {"groups": groups, "mode": "insert"}},
                 {"op": "fuse", "in": ["x"], "out": ["fc"], "args": {"groups": groups, "mode": "concat"}},
                 rel("array_equal", "C05.strategies_agree", "f", "fc"),
                 # two-axis groups only, both strategies, then the other zero-creating operations
                 {"op": "fuse", "in": ["x"], "out": ["g"], "args": {"groups": [groups[0]] if len(groups[0]) > 1 else [axes[:2]], "mode": "concat"}},
                 {"op": "unfuse_all", "in": ["g"], "out": ["gu"], "args": {}},
                 {"op": "to_dense", "in": ["x"], "out": ["xd"], "args": {}},
                 {"op": "copy", "in": ["x"], "out": ["xf"], "args": {}},
                 {"op": "fill_missing_blocks", "in": ["xf"], "out": ["xf"], "args": {}}]
        progs.append({"tid": tids(), "inputs": {"x": x}, "steps": steps})
    return progs


def fuse_programs(seed, n, kinds=("abelian", "fermionic"), syms=gen.SYMS, tids=None):
    tids = tids or gen.Tids()
    progs = []
    for i in range(n):
        rng = gen.rng_for(seed, "fuse", i)
        sym = syms[i % len(syms)]
        kind = kinds[(i // len(syms)) % len(kinds)]
        cfg = rng.choice([{}, {"cache": 0}, {"cache": 1}, {"cache": 8192, "cache_clear": True}])
        dtype = rng.choice(["float64", "complex128", "float32", "complex64"])
        progs.append(fuse_program(rng, tids(), sym, kind, cfg, dtype))
    return progs


# ---------------------------------------------------------------------------
# C06: contraction commutes with fusing; strategies agree

def commute_program(rng, tid, sym, kind, dtype="float64"):
    from .contract import partner_for

    ra = rng.randint(1, 3)
    a = gen.rand_array(rng, sym, ra, kind, dtype=dtype, sparse=0.6,
                       phases=0.3 if kind == "fermionic" else 0.0, oddpos=rng.randint(1, 4))
    ncon = rng.randint(1, ra)
    nfree = rng.randint(0, 3 - ncon)
    b, axes_a, axes_b = partner_for(rng, a, ncon, nfree, kind, oddpos=rng.randint(5, 8), sparse=0.6,
                                    phases=0.3 if kind == "fermionic" else 0.0)
    rb = len(b["ix"])
    axes = [list(axes_a), list(axes_b)]
    steps = []
    for mode, out in (("fused", "cf"), ("blockwise", "cb"), ("auto", "ca")):
        steps.append({"op": "tensordot", "in": ["a", "b"], "out": [out],
                      "args": {"axes": axes, "mode": mode, "preserve_array": True}, "entry": "symmray"})
    steps.append(rel("array_equal_den", "C06.strategies_agree", "cf", "cb"))
    steps.append(rel("array_equal_den", "C06.strategies_agree.auto", "cf", "ca"))
    # fuse the contracted indices into one on each operand (after aligning the sectors)
    if ncon >= 2:
        steps.append({"op": "align_axes", "in": ["a", "b"], "out": ["a2", "b2"], "args": {"axes": axes}})
        steps.append({"op": "fuse", "in": ["a2"], "out": ["af"], "args": {"groups": [list(axes_a)]}})
        steps.append({"op": "fuse", "in": ["b2"], "out": ["bf"], "args": {"groups": [list(axes_b)]}})
        _, fa, _ = layout(ra, [list(axes_a)])
        _, fb, _ = layout(rb, [list(axes_b)])
        steps.append({"op": "tensordot", "in": ["af", "bf"], "out": ["cfused"],
                      "args": {"axes": [[fa[0]], [fb[0]]], "mode": rng.choice(["fused", "blockwise"]),
                               "preserve_array": True}, "entry": "symmray"})
        steps.append(rel("same", "C06.fuse_contracted", "cb", "cfused"))
    # fuse free legs of a before / after the contraction
    left = [i for i in range(ra) if i not in axes_a]
    if len(left) >= 2:
        g = rng.sample(left, 2)
        steps.append({"op": "fuse", "in": ["a"], "out": ["ag"], "args": {"groups": [g]}})
        perm, fused, _ = layout(ra, [g])
        new_axes_a = [perm.index(i) - (1 if perm.index(i) > perm.index(g[1]) else 0) for i in axes_a]
        # positions in the fused array: axes after the group shift left by one
        pos = {}
        j = 0
        k = 0
        while k < len(perm):
            if perm[k] == g[0]:
                pos[g[0]] = j
                pos[g[1]] = j
                k += 2
            else:
                pos[perm[k]] = j
                k += 1
            j += 1
        new_axes_a = [pos[i] for i in axes_a]
        steps.append({"op": "tensordot", "in": ["ag", "b"], "out": ["cg"],
                      "args": {"axes": [new_axes_a, list(axes_b)], "mode": "fused", "preserve_array": True},
                      "entry": "symmray"})
        steps.append({"op": "tensordot", "in": ["ag", "b"], "out": ["cgb"],
                      "args": {"axes": [new_axes_a, list(axes_b)], "mode": "blockwise", "preserve_array": True},
                      "entry": "symmray"})
        steps.append(rel("array_equal_den", "C06.strategies_agree.prefused", "cg", "cgb"))
        # fuse the same legs on the result of the plain contraction
        lpos = [left.index(i) for i in g]
        steps.append({"op": "fuse", "in": ["cb"], "out": ["cbg"], "args": {"groups": [lpos]}})
        # both have the fused leg at the position of the smaller member... compare after
        # bringing the plain result to the layout of cgb: free legs of ag in order, then b's
        steps.append(rel("same_decoded", "C06.fuse_free_commutes", "cgb", "cbg"))
    return {"tid": tid, "inputs": {"a": a, "b": b}, "steps": steps}


def commute_programs(seed, n, kinds=("abelian", "fermionic"), syms=gen.SYMS, tids=None):
    tids = tids or gen.Tids()
    progs = []
    for i in range(n):
        rng = gen.rng_for(seed, "commute", i)
        sym = syms[i % len(syms)]
        kind = kinds[(i // len(syms)) % len(kinds)]
        progs.append(commute_program(rng, tids(), sym, kind, rng.choice(["float64", "complex128"])))
    return progs


# ---------------------------------------------------------------------------
# C07: reshape

def merge_drop_targets(rng, shape, k=3):
    """Shapes obtained by merging adjacent axes and/or dropping unit axes."""
    out = []
    n = len(shape)
    for _ in range(20):
        # random segmentation of the axes; unit axes may be dropped instead
        t = []
        i = 0
        ok = True
        while i < n:
            if shape[i] == 1 and rng.random() < 0.5:
                i += 1
                continue
            ln = rng.randint(1, min(3, n - i))
            prod = 1
            for d in shape[i:i + ln]:
                prod *= d
            t.append(prod)
            i += ln
        if t != list(shape) and t not in out:
            out.append(t)
        if len(out) >= k:
            break
    return out


def total_shape(desc):
    return [sum(e["d"] for e in ix["cm"]) for ix in desc["ix"]]


def reshape_program(rng, tid, sym, kind, dtype="float64"):
    rank = rng.randint(1, 4)
    x = gen.rand_array(rng, sym, rank, kind, dtype=dtype, sparse=0.5, maxc=2 if rank == 4 else 3,
                       phases=0.4 if kind == "fermionic" else 0.0, unit_prob=0.3)
    shape = total_shape(x)
    steps = [{"op": "reshape", "in": ["x"], "out": ["same"], "args": {"newshape": shape},
              "entry": rng.choice(["method", "symmray", "autoray"])},
             rel("array_equal_den", "C07.identity", "x", "same")]
    for n, t in enumerate(merge_drop_targets(rng, shape)):
        steps.append({"op": "reshape", "in": ["x"], "out": [f"r{n}"], "args": {"newshape": t},
                      "entry": rng.choice(["method", "symmray", "autoray"])})
        steps.append({"op": "reshape", "in": [f"r{n}"], "out": [f"b{n}"], "args": {"newshape": shape, "back": True}})
        steps.append(rel("blocks" if kind == "abelian" else "same", "C07.roundtrip", "x", f"b{n}"))
    # un-merge and insert a new unit axis in ONE request (not a promised round trip: it may be refused, but a returned array
    # must have the requested axes and the same content)
    if rank >= 2 and 1 not in shape:
        for n, t in enumerate(merge_drop_targets(rng, shape)[:2]):
            if len(t) < len(shape):
                p = rng.randint(0, len(shape))
                steps.append({"op": "reshape", "in": ["x"], "out": [f"rm{n}"], "args": {"newshape": t}})
                steps.append({"op": "reshape", "in": [f"rm{n}"], "out": [f"rmi{n}"], "args": {"newshape": shape[:p] + [1] + shape[p:]}})
    # the same round trips on numbers 2**-40 times smaller (scaling by a power of two is exact): content must not depend
    # on the magnitude of the entries
    tiny = [t for t in merge_drop_targets(rng, shape)][:2]
    if tiny:
        steps.append({"op": "scale_pow2", "in": ["x"], "out": ["xt"], "args": {"e": -40}})
        for n, t in enumerate(tiny):
            steps.append({"op": "reshape", "in": ["xt"], "out": [f"rt{n}"], "args": {"newshape": t}})
            steps.append({"op": "reshape", "in": [f"rt{n}"], "out": [f"bt{n}"], "args": {"newshape": shape, "back": True}})
            steps.append({"op": "scale_pow2", "in": [f"bt{n}"], "out": [f"bs{n}"], "args": {"e": 40}})
            steps.append(rel("blocks" if kind == "abelian" else "same", "C07.roundtrip.tiny_numbers", "x", f"bs{n}"))
    # targets that only INSERT unit axes (also after a fuse, so that the same call unfuses and expands)
    if 1 not in shape:
        t = list(shape)
        for _ in range(rng.randint(1, 2)):
            t.insert(rng.randint(0, len(t)), 1)
        steps.append({"op": "reshape", "in": ["x"], "out": ["xe"], "args": {"newshape": t, "back": True}})
        steps.append({"op": "reshape", "in": ["xe"], "out": ["xeb"], "args": {"newshape": shape, "back": True}})
        # (dropping the unit axes again goes through a fuse: the axis comes back as a fused index, same tensor)
        steps.append(rel("same", "C07.roundtrip.expand", "x", "xeb"))
    # an already fused axis among the inputs
    if rank >= 2 and rng.random() < 0.5:
        g = sorted(rng.sample(range(rank), 2))
        if g[1] == g[0] + 1:
            steps.append({"op": "fuse", "in": ["x"], "out": ["xf"], "args": {"groups": [g]}})
            steps.append({"op": "reshape", "in": ["xf"], "out": ["xfu"], "args": {"newshape": shape, "back": True}})
            steps.append(rel("blocks" if kind == "abelian" else "same", "C07.roundtrip.prefused", "x", "xfu"))
    return {"tid": tid, "inputs": {"x": x}, "steps": steps}


def reshape_programs(seed, n, kinds=("abelian", "fermionic"), syms=gen.SYMS, tids=None):
    tids = tids or gen.Tids()
    progs = []
    for i in range(n):
        rng = gen.rng_for(seed, "reshape", i)
        progs.append(reshape_program(rng, tids(), syms[i % len(syms)], kinds[(i // len(syms)) % len(kinds)],
                                     rng.choice(["float64", "complex128"])))
    return progs


def reshape_twin_programs(seed, n, kinds=("abelian", "fermionic"), tids=None):
    """Two arrays in ONE program whose merged axes have the same charge table but are composed differently
    (axis sizes {c0: 1, c1: 2} versus {c0: 2, c1: 1} next to an axis with equal sizes): both are reshaped to the
    same target with two non-adjacent merge groups and back, with whatever the first trip left in any cache."""
    tids = tids or gen.Tids()
    progs = []
    for i in range(n):
        rng = gen.rng_for(seed, "reshape-twin", i)
        sym = ["Z2", "Z2Z2", "Z4"][i % 3]
        kind = kinds[(i // 3) % len(kinds)]
        c0, c1 = {"Z2": ([0, 0], [1, 0]), "Z2Z2": ([0, 0], [0, 1]), "Z4": ([0, 0], [2, 0])}[sym]
        d = rng.randint(1, 2)
        a = rng.randint(1, 2)
        b = a + rng.randint(1, 2)
        duals = [rng.random() < 0.5 for _ in range(5)]

        def ix(k, s0, s1):
            return {"dual": duals[k], "cm": [{"c": list(c0), "d": s0}, {"c": list(c1), "d": s1}]}

        tail = [ix(2, 1, 1), ix(3, 1, rng.randint(1, 2)), ix(4, rng.randint(1, 2), 1)]
        xs = {}
        for name, (s0, s1) in (("x1", (a, b)), ("x2", (b, a))):
            ixs = [ix(0, d, d), ix(1, s0, s1)] + [dict(t, cm=[dict(e) for e in t["cm"]]) for t in tail]
            x = gen.rand_array(rng, sym, 5, kind, ixs=ixs, charge=(0, 0), dtype="float64", sparse=0.2,
                               phases=0.3 if kind == "fermionic" else 0.0, oddpos=3,
                               cls="dynamic" if sym == "Z4" else "static")
            x["fill"]["start"] = 1 if name == "x1" else 50
            xs[name] = x
        shape = total_shape(xs["x1"])
        target = [shape[0] * shape[1], shape[2], shape[3] * shape[4]]
        steps = []
        order = ["x1", "x2"] if rng.random() < 0.5 else ["x2", "x1"]
        for rnd in range(2):
            for nm in order:
                t = f"{nm}_{rnd}"
                steps.append({"op": "reshape", "in": [nm], "out": [f"r{t}"], "args": {"newshape": target, "back": True}})
                steps.append({"op": "reshape", "in": [f"r{t}"], "out": [f"b{t}"], "args": {"newshape": shape, "back": True}})
                steps.append(rel("blocks" if kind == "abelian" else "same", "C07.roundtrip.twin", nm, f"b{t}"))
        progs.append({"tid": tids(), "inputs": xs, "steps": steps})
    return progs


def mixed_fuse_programs(seed, n, syms=gen.SYMS, kinds=("abelian", "fermionic"), tids=None):
    """The fuse program on an array whose blocks have DIFFERENT element types: the sum of a complex array storing
    few sectors (possibly the first) and a real one storing all of them, in either order."""
    tids = tids or gen.Tids()
    progs = []
    for i in range(n):
        rng = gen.rng_for(seed, "fuse-mixed", i)
        sym = syms[i % len(syms)]
        kind = kinds[(i // len(syms)) % len(kinds)]
        p = fuse_program(rng, tids(), sym, kind, maxrank=3)
        x = p["inputs"]["x"]
        x["dtype"] = "float64"
        x["drop"] = []
        x.pop("phases", None)
        nsec = len(gen.D.valid_sectors(sym, x["ix"], tuple(x["charge"])))
        z = dict(x, dtype="complex128", fill={"start": 30, "step": 1, "alt": True})
        keep = sorted(set([0] if rng.random() < 0.6 else []) | set(rng.sample(range(nsec), rng.randint(1, max(1, nsec // 2))))) if nsec else []
        z["drop"] = [k for k in range(nsec) if k not in keep]
        order = ["z", "r"] if rng.random() < 0.6 else ["r", "z"]
        p["inputs"] = {"r": x, "z": z}
        p["steps"] = [{"op": "add", "in": order, "out": ["x"], "args": {}}] + p["steps"]
        progs.append(p)
    return progs
