"""Fermionic tensor networks (C04 route independence, C10 norms)."""
from .. import gen
from .fuse import rel

LETTERS = "abcdefghijklmnopqrstuvwxyz"


def stored_sectors(desc):
    secs = gen.D.valid_sectors(desc["sym"], desc["ix"], tuple(desc["charge"]))
    drop = set(desc.get("drop", ()))
    return [s for k, s in enumerate(secs) if k not in drop]


def contracts_to_something(tensors):
    """Is there an assignment of one stored sector per tensor that agrees on every bond?  (Otherwise the whole
    network contracts to an array without blocks and says nothing about signs.)"""
    def rec(k, bonds):
        if k == len(tensors):
            return True
        desc, legs = tensors[k]
        for s in stored_sectors(desc):
            ok, new = True, dict(bonds)
            for c, l in zip(s, legs):
                if l >= 100:
                    if l in new and new[l] != tuple(c):
                        ok = False
                        break
                    new[l] = tuple(c)
            if ok and rec(k + 1, new):
                return True
        return False

    return rec(0, {})


def make_network(rng, sym, shape="chain3", kind="fermionic", dtype="float64", dangling=None, maxd=2):
    """Tensors as (descriptor, legs); redrawn until the network contracts to an array with stored blocks."""
    for attempt in range(60):
        net = _make_network(rng, sym, shape, kind, dtype, dangling, maxd, sparse=0.3 if attempt < 40 else 0.0)
        if contracts_to_something(net):
            return net
    return net


def _make_network(rng, sym, shape, kind, dtype, dangling, maxd, sparse=0.3):
    """Tensors as (descriptor, legs).  Bond legs have ids >= 100 and appear on two
    tensors (the second holds the conjugate index); dangling legs have ids < 100."""
    if shape == "pair":
        nt, bonds = 2, [(0, 1)] + ([(0, 1)] if rng.random() < 0.4 else [])
    elif shape == "chain3":
        nt, bonds = 3, [(0, 1), (1, 2)]
    elif shape == "chain4":
        nt, bonds = 4, [(0, 1), (1, 2), (2, 3)]
    elif shape == "triangle":
        nt, bonds = 3, [(0, 1), (1, 2), (0, 2)]
    elif shape == "star":
        nt, bonds = 4, [(0, 1), (0, 2), (0, 3)]
    else:
        raise ValueError(shape)
    legs = [[] for _ in range(nt)]
    ixs = [[] for _ in range(nt)]
    for b, (i, j) in enumerate(bonds):
        ix = gen.rand_index(rng, sym, maxc=2, maxd=maxd)
        if rng.random() < 0.5:
            i, j = j, i
        legs[i].append(100 + b)
        ixs[i].append(ix)
        legs[j].append(100 + b)
        ixs[j].append(gen.conj_index(ix))
    nd = 0
    for t in range(nt):
        k = rng.randint(0, 1) if dangling is None else dangling
        if len(legs[t]) + k > 3:
            k = max(0, 3 - len(legs[t]))
        for _ in range(k):
            legs[t].append(nd)
            ixs[t].append(gen.rand_index(rng, sym, maxc=2, maxd=maxd))
            nd += 1
    tensors = []
    for t in range(nt):
        order = list(range(len(legs[t])))
        rng.shuffle(order)
        lg = [legs[t][o] for o in order]
        ix = [ixs[t][o] for o in order]
        desc = gen.rand_array(rng, sym, len(ix), kind, ixs=ix, dtype=dtype, sparse=sparse,
                              phases=0.3 if kind == "fermionic" else 0.0, oddpos=(10 * (t + 1) + rng.randint(0, 5)) if (t or rng.random() < 0.7) else 0,
                              start=1 + 3 * t, cls="dynamic" if sym == "Z4" else "static")
        desc["fill"]["mod"] = 5
        tensors.append((desc, lg))
    return tensors


class Builder:
    def __init__(self, prefix):
        self.steps = []
        self.prefix = prefix
        self.n = 0

    def reg(self):
        self.n += 1
        return f"{self.prefix}{self.n}"


def contract_route(rng, b, tensors, one_at_a_time=0.3, pretranspose=0.3, kind="fermionic", scalar_last=False):
    """tensors: list of (register, legs).  Emits steps contracting everything; returns
    (register, legs) of the result (legs in route-dependent order)."""
    ts = [(r, list(l)) for r, l in tensors]
    while len(ts) > 1:
        # pick a connected pair when there is one
        pairs = [(i, j) for i in range(len(ts)) for j in range(len(ts)) if i != j
                 and set(ts[i][1]) & set(ts[j][1])]
        if not pairs or rng.random() < 0.05:
            pairs = [(i, j) for i in range(len(ts)) for j in range(len(ts)) if i != j]
        i, j = rng.choice(pairs)
        (ra, la), (rb, lb) = ts[i], ts[j]
        if pretranspose and la and rng.random() < pretranspose:
            p = list(range(len(la)))
            rng.shuffle(p)
            nr = b.reg()
            b.steps.append({"op": "transpose", "in": [ra], "out": [nr], "args": {"axes": p}})
            ra, la = nr, [la[q] for q in p]
        shared = [l for l in la if l in lb]
        rng.shuffle(shared)
        defer = []
        if len(shared) >= 2 and rng.random() < one_at_a_time:
            defer = shared[1:]
            shared = shared[:1]
        axes_a = [la.index(l) for l in shared]
        axes_b = [lb.index(l) for l in shared]
        out = b.reg()
        legs = [l for l in la if l not in shared] + [l for l in lb if l not in shared]
        targs = {"axes": [axes_a, axes_b], "preserve_array": True, "mode": rng.choice(["auto", "fused", "blockwise"])}
        if scalar_last and len(ts) == 2 and not legs and not defer:
            # the closing contraction of a closed network: let the library return the plain number
            del targs["preserve_array"]
        b.steps.append({"op": "tensordot", "in": [ra, rb], "out": [out], "args": targs, "entry": "symmray"})
        if defer:
            # the remaining shared legs now appear twice on the result: trace them with einsum
            codes = {}
            lhs = [codes.setdefault(l, len(codes)) for l in legs]
            kept = [l for l in legs if l not in defer]
            rng.shuffle(kept)
            rhs = [codes[l] for l in kept]
            eq = "".join(LETTERS[c] for c in lhs) + "->" + "".join(LETTERS[c] for c in rhs)
            out2 = b.reg()
            b.steps.append({"op": "einsum", "in": [out], "out": [out2],
                            "args": {"eq": eq, "lhs": lhs, "rhs": rhs, "preserve_array": True}})
            out, legs = out2, kept
        ts = [t for k, t in enumerate(ts) if k not in (i, j)] + [(out, legs)]
    return ts[0]


def canonical(b, reg, legs):
    order = sorted(range(len(legs)), key=lambda k: legs[k])
    out = b.reg()
    b.steps.append({"op": "transpose", "in": [reg], "out": [out], "args": {"axes": order}})
    return out, [legs[k] for k in order]


def route_programs(seed, n, syms=gen.SYMS, shapes=("pair", "chain3", "triangle", "chain4", "star"),
                   nroutes=5, tids=None, kind="fermionic"):
    tids = tids or gen.Tids()
    progs = []
    for i in range(n):
        rng = gen.rng_for(seed, "net", i)
        sym = syms[i % len(syms)]
        shape = shapes[(i // len(syms)) % len(shapes)]
        dtype = rng.choice(["float64", "complex128"])
        # a third of the networks are CLOSED (no dangling leg): the last contraction returns a plain number unless asked otherwise
        closed = rng.random() < 0.35
        net = make_network(rng, sym, shape, kind, dtype, maxd=1 if shape in ("chain4", "star") else 2,
                           dangling=0 if closed else None)
        inputs = {f"t{k}": d for k, (d, _) in enumerate(net)}
        tensors = [(f"t{k}", l) for k, (_, l) in enumerate(net)]
        steps = []
        finals = []
        for r in range(nroutes):
            b = Builder(f"q{r}_")
            reg, legs = contract_route(rng, b, tensors, scalar_last=closed and r % 2 == 0)
            if legs:
                reg, legs = canonical(b, reg, legs)
            steps += b.steps
            finals.append(reg)
        for r in range(1, nroutes):
            steps.append(rel("same", "C04.route_independent", finals[0], finals[r]))
        # conjugating the contracted network = contracting the conjugated tensors (along yet another route): the value must not
        # depend on the stage at which the conjugate is taken either
        if not closed and i % 2 == 0:
            for k in range(len(net)):
                steps.append({"op": "conj", "in": [f"t{k}"], "out": [f"tc{k}"], "args": {}})
            b = Builder("qc_")
            reg, legs = contract_route(rng, b, [(f"tc{k}", l) for k, (_, l) in enumerate(net)])
            if legs:
                reg, legs = canonical(b, reg, legs)
            steps += b.steps
            steps.append({"op": "conj", "in": [finals[0]], "out": ["fconj"], "args": {}})
            steps.append(rel("same", "C04.conjugate_then_contract", "fconj", reg))
        progs.append({"tid": tids(), "inputs": inputs, "steps": steps})
    return progs


def norm_programs(seed, n, syms=gen.SYMS, shapes=("pair", "chain3", "triangle"), tids=None):
    """<psi|psi> for a network conjugated tensor by tensor (C10)."""
    tids = tids or gen.Tids()
    progs = []
    for i in range(n):
        rng = gen.rng_for(seed, "netnorm", i)
        sym = syms[i % len(syms)]
        shape = shapes[(i // len(syms)) % len(shapes)]
        dtype = rng.choice(["float64", "complex128"])
        net = make_network(rng, sym, shape, "fermionic", dtype, maxd=1 if shape == "triangle" else 2)
        inputs = {f"t{k}": d for k, (d, _) in enumerate(net)}
        kets = [(f"t{k}", l) for k, (_, l) in enumerate(net)]
        steps = []
        bras = []
        for k, (d, legs) in enumerate(net):
            steps.append({"op": "conj", "in": [f"t{k}"], "out": [f"c{k}"], "args": {}})
            # flip the dangling legs that were bra-like (dual) in the original
            flip = [p for p, l in enumerate(legs) if l < 100 and d["ix"][p]["dual"]]
            name = f"c{k}"
            if flip:
                steps.append({"op": "phase_flip", "in": [name], "out": [f"cf{k}"], "args": {"axs": flip}})
                name = f"cf{k}"
            # bonds inside the bra layer get their own ids (+1000); dangling legs pair with the ket
            bras.append((name, [l + 1000 if l >= 100 else l for l in legs]))
        # psi itself
        b = Builder("p_")
        preg, plegs = contract_route(rng, b, kets)
        steps += b.steps
        for r in range(2):
            b = Builder(f"n{r}_")
            order = bras + kets if r == 0 else kets + bras
            reg, legs = contract_route(rng, b, order, pretranspose=0.2, scalar_last=(r == 1))
            steps += b.steps
            steps.append(rel("norm2", "C10.network_norm", reg, preg))
        progs.append({"tid": tids(), "inputs": inputs, "steps": steps})
    return progs
