"""C14: in-place twins and aliasing follow-ups."""
from .. import gen
from .fuse import rel, rand_groups

# (op, args builder) for operations that offer an in-place flag
def inplace_ops(rng, rank, kind, x):
    ops = []
    perm = list(range(rank))
    rng.shuffle(perm)
    if rank:
        ops.append(("transpose", {"axes": perm}))
    ops.append(("conj", {}))
    ops.append(("dagger", {}))
    ops.append(("expand_dims", {"axis": rng.randint(0, rank)}))
    ops.append(("sync_charges", {}))
    if rank >= 2:
        ops.append(("fuse", {"groups": rand_groups(rng, rank)}))
        ops.append(("reshape", {"newshape": [sum(e["d"] for e in x["ix"][0]["cm"]) * sum(e["d"] for e in x["ix"][1]["cm"])]
                                + [sum(e["d"] for e in ix["cm"]) for ix in x["ix"][2:]]}))
    if kind == "fermionic":
        if rank:
            ops.append(("phase_flip", {"axs": rng.sample(range(rank), rng.randint(1, rank))}))
            ops.append(("phase_transpose", {"axes": perm}))
        ops.append(("phase_global", {}))
        ops.append(("phase_sync", {}))
        ops.append(("conj", {"phase_dual": True}))
        ops.append(("dagger", {"phase_dual": True}))
    return ops


FOLLOWUPS = ["ismul", "fill_missing_blocks", "phase_sync_ip", "iadd_self", "conj_ip", "transpose_ip"]


def followup(rng, kind, target, rank):
    f = rng.choice(FOLLOWUPS)
    if f == "ismul":
        return {"op": "ismul", "in": [target], "out": [target], "args": {"k": [2, 0]}}
    if f == "fill_missing_blocks":
        return {"op": "fill_missing_blocks", "in": [target], "out": [target], "args": {}}
    if f == "phase_sync_ip" and kind == "fermionic":
        return {"op": "phase_sync", "in": [target], "out": [target], "args": {"inplace": True}}
    if f == "iadd_self":
        return {"op": "iadd", "in": [target, target], "out": [target], "args": {}}
    if f == "transpose_ip" and rank:
        p = list(range(rank))
        rng.shuffle(p)
        return {"op": "transpose", "in": [target], "out": [target], "args": {"axes": p, "inplace": True}}
    return {"op": "conj", "in": [target], "out": [target], "args": {"inplace": True}}


def programs(seed, n, kinds=("abelian", "fermionic"), syms=gen.SYMS, tids=None):
    tids = tids or gen.Tids()
    progs = []
    for i in range(n):
        rng = gen.rng_for(seed, "alias", i)
        sym = syms[i % len(syms)]
        kind = kinds[(i // len(syms)) % len(kinds)]
        rank = rng.randint(1, 3)
        x = gen.rand_array(rng, sym, rank, kind, sparse=0.5, phases=0.4 if kind == "fermionic" else 0.0,
                           dtype=rng.choice(["float64", "complex128"]))
        steps = []
        for j, (op, args) in enumerate(inplace_ops(rng, rank, kind, x)):
            # out of place, then a copy modified in place: both must be the same value
            steps.append({"op": op, "in": ["x"], "out": [f"o{j}"], "args": dict(args)})
            steps.append({"op": "copy", "in": ["x"], "out": [f"c{j}"], "args": {}})
            steps.append({"op": op, "in": [f"c{j}"], "out": [f"c{j}"], "args": dict(args, inplace=True)})
            steps.append(rel("obs", "C14.inplace_equal." + op, f"o{j}", f"c{j}"))
            # then mutate the out-of-place result in place: x must not notice (frame clause)
            res_rank = rank
            steps.append(followup(rng, kind, f"o{j}", 0))
        if rank >= 2:
            # the same out-of-place calls on an operand whose blocks are NOT stored in sorted order (a transpose)
            pt = list(range(rank))
            rng.shuffle(pt)
            steps.append({"op": "transpose", "in": ["x"], "out": ["xt"], "args": {"axes": pt}})
            steps.append({"op": "fuse", "in": ["xt"], "out": ["xt_f"], "args": {"groups": rand_groups(rng, rank)}, "entry": rng.choice(["method", "symmray", "autoray"])})
            steps.append({"op": "fuse", "in": ["xt"], "out": ["xt_f2"], "args": {"groups": rand_groups(rng, rank), "mode": "concat"}})
            steps.append({"op": "conj", "in": ["xt"], "out": ["xt_c"], "args": {}})
            steps.append({"op": "tensordot", "in": ["xt", "xt_c"], "out": ["xt_n"], "args": {"axes": [list(range(rank)), list(range(rank))], "mode": "fused", "preserve_array": True}, "entry": "symmray"})
        progs.append({"tid": tids(), "inputs": {"x": x}, "steps": steps})
    return progs


def binary_programs(seed, n, kinds=("fermionic", "abelian"), syms=gen.SYMS, tids=None):
    """Out-of-place operations with two operands that carry pending signs / missing blocks: contraction over
    zero, one or several legs in every mode (incl. the outer product), matmul, arithmetic, align_axes.  Nothing
    is asserted by the driver: the frame clause compares both operands around every call."""
    from .contract import partner_for

    tids = tids or gen.Tids()
    progs = []
    for i in range(n):
        rng = gen.rng_for(seed, "alias2", i)
        sym = syms[i % len(syms)]
        kind = kinds[(i // len(syms)) % len(kinds)]
        ph = 0.6 if kind == "fermionic" else 0.0
        rank = rng.randint(1, 3)
        x = gen.rand_array(rng, sym, rank, kind, sparse=0.3, phases=ph, oddpos=rng.randint(1, 4),
                           dtype=rng.choice(["float64", "complex128"]), maxd=2)
        steps = []
        inputs = {"x": x}
        for t, ncon in enumerate(sorted({0, rng.randint(0, rank), rank})):
            nfree = rng.randint(0 if ncon else 1, 2)
            b, axes_a, axes_b = partner_for(rng, x, ncon, nfree, kind, oddpos=5 + t, phases=ph, sparse=0.3, maxd=2)
            inputs[f"b{t}"] = b
            for mode in ("auto", "fused", "blockwise"):
                steps.append({"op": "tensordot", "in": ["x", f"b{t}"], "out": [f"t{t}{mode[0]}"],
                              "args": {"axes": [list(axes_a), list(axes_b)], "mode": mode, "preserve_array": True},
                              "entry": rng.choice(["symmray", "autoray"])})
            if ncon == 0:
                steps.append({"op": "tensordot", "in": ["x", f"b{t}"], "out": [f"t{t}n"], "args": {"naxes": 0}, "entry": "symmray"})
                steps.append({"op": "tensordot", "in": [f"b{t}", "x"], "out": [f"t{t}r"], "args": {"naxes": 0}, "entry": "symmray"})
            if ncon:
                steps.append({"op": "align_axes", "in": ["x", f"b{t}"], "out": [f"al{t}a", f"al{t}b"],
                              "args": {"axes": [list(axes_a), list(axes_b)]}})
        # a sibling for the elementwise operations
        y = dict(x)
        nsec = len(gen.D.valid_sectors(sym, x["ix"], tuple(x["charge"])))
        y["drop"] = sorted(rng.sample(range(nsec), rng.randint(0, max(0, nsec - 1)))) if nsec else []
        y["fill"] = {"start": 40, "step": 1, "alt": True}
        if kind == "fermionic" and nsec:
            y["phases"] = sorted(k for k in range(nsec - len(y["drop"])) if rng.random() < 0.5)
        inputs["y"] = y
        for op in ("add", "sub", "mul"):
            steps.append({"op": op, "in": ["x", "y"], "out": [f"e_{op}"], "args": {}})
        # scaling a leg by a block vector that misses one of its charges (e.g. singular values after a truncation)
        from .algebra import vector_desc
        dax = rng.randrange(rank)
        inputs["v"] = vector_desc(rng, sym, ix=x["ix"][dax], drop=True, start=2, dtype=x["dtype"])
        for ent in ("method", "symmray", "autoray"):
            steps.append({"op": "multiply_diagonal", "in": ["x", "v"], "out": [f"md_{ent[0]}"], "args": {"axis": dax}, "entry": ent})
        steps.append({"op": "allclose", "in": ["x", "y"], "out": ["ac"], "args": {}})
        steps.append({"op": "to_dense", "in": ["x"], "out": ["dn"], "args": {}})
        steps.append({"op": "norm", "in": ["x"], "out": ["nm"], "args": {}})
        progs.append({"tid": tids(), "inputs": inputs, "steps": steps})
    return progs
