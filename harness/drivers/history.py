"""C15: results do not depend on call history, caches or threads."""
import copy

from .. import gen
from .fuse import rel, rand_groups


def family(rng, sym):
    """A base array and near-identical variants (each differs in ONE attribute)."""
    base = gen.rand_array(rng, sym, 3, rng.choice(["abelian", "fermionic"]), sparse=0.0, maxc=2, maxd=2)
    if sym in ("U1", "U1U1") and rng.random() < 0.7:
        # make sure the label -1 occurs somewhere
        k = rng.randrange(3)
        neg = [-1, 0] if sym == "U1" else [-1, 0]
        have = {tuple(e["c"]) for e in base["ix"][k]["cm"]}
        if tuple(neg) not in have:
            base["ix"][k]["cm"][0]["c"] = neg
            base["ix"][k]["cm"].sort(key=lambda e: tuple(e["c"]))
            if len({tuple(e["c"]) for e in base["ix"][k]["cm"]}) < len(base["ix"][k]["cm"]):
                base["ix"][k]["cm"] = base["ix"][k]["cm"][:1]
            base["charge"] = list(rng.choice(gen.possible_charges(sym, base["ix"])))
    base["drop"] = []
    fam = {"v0": base}
    # one dualness flipped (charge re-chosen so that sectors exist)
    v = copy.deepcopy(base)
    k = rng.randrange(3)
    v["ix"][k]["dual"] = not v["ix"][k]["dual"]
    v["charge"] = list(rng.choice(gen.possible_charges(sym, v["ix"])))
    fam["v1"] = v
    # one block size changed
    v = copy.deepcopy(base)
    k = rng.randrange(3)
    v["ix"][k]["cm"][0]["d"] += 1
    fam["v2"] = v
    # one charge label changed
    v = copy.deepcopy(base)
    k = rng.randrange(3)
    have = {tuple(e["c"]) for e in v["ix"][k]["cm"]}
    cand = [c for c in gen.CHARGE_POOL[sym] if c not in have]
    if cand:
        v["ix"][k]["cm"][-1]["c"] = list(rng.choice(cand))
        v["ix"][k]["cm"].sort(key=lambda e: tuple(e["c"]))
        v["charge"] = list(rng.choice(gen.possible_charges(sym, v["ix"])))
        fam["v3"] = v
    # one missing sector
    v = copy.deepcopy(base)
    nsec = len(gen.D.valid_sectors(sym, v["ix"], tuple(v["charge"])))
    if nsec > 1:
        v["drop"] = [rng.randrange(nsec)]
        fam["v4"] = v
    # same charge labels under another symmetry (Z2 <-> U1)
    if sym in ("Z2", "U1"):
        v = copy.deepcopy(base)
        other = "U1" if sym == "Z2" else "Z2"
        if all(tuple(e["c"]) in ((0, 0), (1, 0)) for ix in v["ix"] for e in ix["cm"]):
            v["sym"] = other
            v["cls"] = "static"
            ch = gen.possible_charges(other, v["ix"])
            v["charge"] = list(rng.choice(ch))
            fam["v5"] = v
    # the label -1 replaced by -2 (CPython: hash(-1) == hash(-2))
    if sym in ("U1", "U1U1"):
        v = copy.deepcopy(base)
        hit = False
        for ix in v["ix"]:
            have = {tuple(e["c"]) for e in ix["cm"]}
            for e in ix["cm"]:
                c = tuple(e["c"])
                c2 = tuple(-2 if q == -1 else q for q in c)
                if c2 != c and c2 not in have:
                    e["c"] = list(c2)
                    hit = True
            ix["cm"].sort(key=lambda e: tuple(e["c"]))
        if hit:
            ch = gen.possible_charges(sym, v["ix"])
            v["charge"] = list(rng.choice(ch))
            fam["v6"] = v
    for d in fam.values():
        d["fill"] = {"start": 1, "step": 1, "alt": True}
    # the same structure with other element types (a cached plan must not remember the element type)
    for nm, dt in (("v7", "complex128"), ("v8", "float32")):
        v = copy.deepcopy(base)
        v["dtype"] = dt
        fam[nm] = v
    return fam


def programs(seed, n, syms=gen.SYMS, tids=None):
    tids = tids or gen.Tids()
    progs = []
    for i in range(n):
        rng = gen.rng_for(seed, "history", i)
        sym = syms[i % len(syms)]
        fam = family(rng, sym)
        names = sorted(fam)
        groups = rand_groups(rng, 3, maxgroups=1, allow_single=False)
        steps = [{"op": "set_cache", "in": [], "out": [], "args": {"size": 0, "clear": True}}]
        for nm in names:
            steps.append({"op": "fuse", "in": [nm], "out": [f"ref_f_{nm}"], "args": {"groups": groups}})
            steps.append({"op": "conj", "in": [nm], "out": [f"c_{nm}"], "args": {}})
            steps.append({"op": "tensordot", "in": [nm, f"c_{nm}"], "out": [f"ref_t_{nm}"],
                          "args": {"axes": [[0, 1], [0, 1]], "mode": "fused", "preserve_array": True}, "entry": "symmray"})
        # sub-index structure: a pre-fused variant of the base
        steps.append({"op": "fuse", "in": ["v0"], "out": ["v0f"], "args": {"groups": [[0, 1]]}})
        steps.append({"op": "fuse", "in": ["v0f"], "out": ["ref_ff"], "args": {"groups": [[0, 1]]}})
        size = rng.choice([1, 1, 2, 8192])
        steps.append({"op": "set_cache", "in": [], "out": [], "args": {"size": size, "clear": True}})
        k = 0
        for _ in range(rng.randint(6, 12)):
            nm = rng.choice(names)
            k += 1
            what = rng.random()
            if what < 0.55:
                steps.append({"op": "fuse", "in": [nm], "out": [f"h{k}"], "args": {"groups": groups}})
                steps.append({"op": "rel", "in": [], "out": [], "args": {"how": "all_or_none", "names": [f"h{k}", f"ref_f_{nm}"],
                                                                         "clause": "C15.history_independent.fuse.outcome"}})
                steps.append(rel("obs", "C15.history_independent.fuse", f"h{k}", f"ref_f_{nm}"))
            elif what < 0.9:
                steps.append({"op": "tensordot", "in": [nm, f"c_{nm}"], "out": [f"h{k}"],
                              "args": {"axes": [[0, 1], [0, 1]], "mode": "fused", "preserve_array": True},
                              "entry": "symmray"})
                steps.append({"op": "rel", "in": [], "out": [], "args": {"how": "all_or_none", "names": [f"h{k}", f"ref_t_{nm}"],
                                                                         "clause": "C15.history_independent.tensordot.outcome"}})
                steps.append(rel("obs", "C15.history_independent.tensordot", f"h{k}", f"ref_t_{nm}"))
            else:
                steps.append({"op": "fuse", "in": ["v0f"], "out": [f"h{k}"], "args": {"groups": [[0, 1]]}})
                steps.append(rel("obs", "C15.history_independent.fuse_prefused", f"h{k}", "ref_ff"))
        # the default contraction mode context
        for j in range(4):
            a = {"mode": rng.choice(["fused", "blockwise", "auto"]), "raise": rng.random() < 0.5}
            if rng.random() < 0.5:
                a["nested"] = rng.choice(["fused", "blockwise"])
                a["raise_inner"] = rng.random() < 0.5
            if rng.random() < 0.5:
                a["prebuilt"] = True
                if rng.random() < 0.5:
                    a["preset"] = rng.choice(["fused", "blockwise", "auto"])
            steps.append({"op": "mode_ctx", "in": [], "out": [f"m{j}"], "args": a})
        progs.append({"tid": tids(), "inputs": fam, "steps": steps})
    return progs


def derived_programs(seed, n, syms=gen.SYMS, tids=None):
    """Arrays DERIVED from one another by library operations share index objects (and their memoised hash
    keys): conj / transpose / sync_charges of an array whose plans are already cached, and two fuse histories
    that end in equal tables.  Every call made with a warm cache is compared with the same call made with the
    cache disabled."""
    tids = tids or gen.Tids()
    progs = []
    for i in range(n):
        rng = gen.rng_for(seed, "derived", i)
        sym = syms[i % len(syms)]
        kind = rng.choice(["abelian", "fermionic"])
        x = gen.rand_array(rng, sym, 3, kind, sparse=0.3, minc=2, maxc=3, maxd=2, phases=0.3 if kind == "fermionic" else 0)
        g = rng.choice([[0, 1], [1, 2], [0, 2], [1, 0], [2, 1]])
        size = rng.choice([2, 8192, 8192])
        steps = []
        warm, cold = [], []

        def both(op, ins, args, name):
            """the same call with the warm cache (now) and - at the end - with the cache off"""
            steps.append({"op": op, "in": ins, "out": [name], "args": dict(args)})
            cold.append(({"op": op, "in": ins, "out": [name + "_ref"], "args": dict(args)}, name))

        steps.append({"op": "set_cache", "in": [], "out": [], "args": {"size": size, "clear": True}})
        both("fuse", ["x"], {"groups": [g]}, "f_x")
        # conjugate / adjoint / permuted copies reuse the index objects of x
        steps.append({"op": "conj", "in": ["x"], "out": ["xc"], "args": {}})
        both("fuse", ["xc"], {"groups": [g]}, "f_xc")
        steps.append({"op": "dagger", "in": ["x"], "out": ["xd"], "args": {}})
        gd = [2 - a for a in g]
        both("fuse", ["xd"], {"groups": [gd]}, "f_xd")
        both("fuse", ["xd"], {"groups": [g]}, "f_xd2")
        # the conjugate first, then the original with other groups (the mirror case)
        g2 = rng.choice([q for q in ([0, 1], [1, 2], [0, 2], [2, 0]) if q != g])
        both("fuse", ["xc"], {"groups": [g2]}, "f_xc2")
        both("fuse", ["x"], {"groups": [g2]}, "f_x2")
        # charges that no stored sector uses: sync_charges drops them from the tables
        both("fuse", ["xs0"], {"groups": [g]}, "f_xs0")            # memoises the hash keys of xs0's indices
        steps.append({"op": "sync_charges", "in": ["xs0"], "out": ["xs"], "args": {}})
        both("fuse", ["xs"], {"groups": [g]}, "f_xs")
        steps.append({"op": "conj", "in": ["xs"], "out": ["xsc"], "args": {}})
        both("tensordot", ["xs", "xsc"], {"axes": [[0, 1], [0, 1]], "mode": "fused", "preserve_array": True}, "t_xs")
        both("tensordot", ["xs0", "xsc"], {"axes": [[0, 1], [0, 1]], "mode": "fused", "preserve_array": True}, "t_xs0")
        # two fuse histories with equal tables, then a second-level fuse of the fused axis
        both("fuse", ["x"], {"groups": [[0, 1]]}, "h1")
        both("fuse", ["x"], {"groups": [[1, 0]]}, "h2")
        both("fuse", ["h1"], {"groups": [[0, 1]]}, "hh1")
        both("fuse", ["h2"], {"groups": [[0, 1]]}, "hh2")
        # contraction over the remaining leg: the pre-fused free leg must stay what it was, in every mode
        for h in ("1", "2"):
            both("tensordot", [f"h{h}", "p"], {"axes": [[1], [0]], "mode": "fused", "preserve_array": True}, f"tf{h}")
            both("tensordot", [f"h{h}", "p"], {"axes": [[1], [0]], "mode": "blockwise", "preserve_array": True}, f"tb{h}")
            steps.append(rel("array_equal_den", "C06.strategies_agree.prefused_history", f"tf{h}", f"tb{h}"))
            steps.append({"op": "unfuse", "in": [f"tf{h}"], "out": [f"tfu{h}"], "args": {"axis": 0}})
        steps.append({"op": "tensordot", "in": ["x", "p"], "out": ["txp"], "args": {"axes": [[2], [0]], "mode": "blockwise", "preserve_array": True},
                      "entry": "symmray"})
        steps.append(rel("same", "C06.fuse_free_commutes.history", "tfu1", "txp"))
        for h, perm in (("1", [0, 1, 2]), ("2", [1, 0, 2])):
            steps.append({"op": "unfuse", "in": [f"hh{h}"], "out": [f"u{h}a"], "args": {"axis": 0}})
            steps.append({"op": "unfuse", "in": [f"u{h}a"], "out": [f"u{h}b"], "args": {"axis": 0}})
            inv = [perm.index(k) for k in range(3)]
            steps.append({"op": "transpose", "in": [f"u{h}b"], "out": [f"back{h}"], "args": {"axes": inv}})
            steps.append(rel("blocks" if kind == "abelian" else "same", "C05.roundtrip.nested", "x", f"back{h}"))
            steps.append({"op": "unfuse_all", "in": [f"hh{h}"], "out": [f"ua{h}"], "args": {}})
        # now everything again with the cache disabled, and compare
        steps.append({"op": "set_cache", "in": [], "out": [], "args": {"size": 0, "clear": True}})
        for st, name in cold:
            steps.append(st)
            steps.append(rel("obs", "C15.history_independent.derived", name, name + "_ref"))
        # xs0: x with every sector that uses one particular charge removed
        xs0 = copy.deepcopy(x)
        k = rng.randrange(3)
        c = xs0["ix"][k]["cm"][rng.randrange(len(xs0["ix"][k]["cm"]))]["c"]
        secs = gen.D.valid_sectors(sym, xs0["ix"], tuple(xs0["charge"]))
        xs0["drop"] = sorted(set(xs0["drop"]) | {j for j, s in enumerate(secs) if list(s[k]) == list(c)})
        pix = [gen.conj_index(x["ix"][2]), gen.rand_index(rng, sym, maxc=2)]
        pp = gen.rand_array(rng, sym, 2, kind, ixs=pix, sparse=0.0, oddpos=9, start=31, cls=x["cls"])
        progs.append({"tid": tids(), "inputs": {"x": x, "xs0": xs0, "p": pp}, "steps": steps})
    return progs


def fresh_programs(seed, n, syms=gen.SYMS, tids=None):
    """A call made after a random warm-up of OTHER calls (other arrays, other options) must return bit for bit what
    the same call returns in a brand-new interpreter: whatever the process remembers - plan caches, memoised kernels,
    module defaults - must not show.  (op "fresh" runs the call in a subprocess and returns the projected result.)"""
    from .linalg_drv import matrix

    tids = tids or gen.Tids()
    progs = []
    for i in range(n):
        rng = gen.rng_for(seed, "fresh", i)
        sym = syms[i % len(syms)]
        kind = rng.choice(["abelian", "fermionic"])
        x = matrix(rng, sym, kind, pattern="monomial", dtype="float64", sparse=0.2)
        y = matrix(rng, sym, kind, pattern="monomial", dtype="float64", sparse=0.2, start=7)
        h = matrix(rng, sym, kind, hermitian=True, dtype="float64", start=2)
        z = gen.rand_array(rng, sym, 3, kind, sparse=0.3, maxc=2, phases=0.3 if kind == "fermionic" else 0.0, oddpos=4)
        inputs = {"x": x, "y": y, "h": h, "z": z}

        def calls(m, t):
            """the menu of calls on matrix register m (t: the rank-3 register)"""
            return [("qr", [m], {"stabilized": False}, 2), ("qr", [m], {"stabilized": True}, 2), ("svd", [m], {}, 3),
                    ("svd_truncated", [m], {"max_bond": 2, "absorb": "none"}, 3),
                    ("svd_truncated", [m], {"cutoff": [1, 2], "cutoff_mode": 1, "absorb": 0}, 3),
                    ("fuse", [t], {"groups": [[0, 1]]}, 1), ("fuse", [t], {"groups": [[2, 0]], "mode": "concat"}, 1),
                    ("reshape", [t], {"newshape": None}, 1), ("transpose", [t], {"axes": [2, 0, 1]}, 1),
                    ("conj", [m], {}, 1), ("dagger", [m], {}, 1), ("norm", [m], {}, 1), ("to_dense", [m], {}, 1)]

        def fix(op, ins, a):
            a = dict(a)
            if op == "reshape":
                from .fuse import total_shape
                sh = total_shape(inputs[ins[0]])
                a = {"newshape": [sh[0] * sh[1], sh[2]], "back": True}
            return a

        steps = []
        k = 0
        warm = calls("y", "z") + [("eigh", ["h"], {}, 2)]
        rng.shuffle(warm)
        for op, ins, a, nout in warm[: rng.randint(2, 6)]:
            k += 1
            steps.append({"op": op, "in": ins, "out": [f"w{k}_{j}" for j in range(nout)], "args": fix(op, ins, a),
                          "entry": rng.choice(["symmray", "autoray"]) if op in ("qr", "svd", "eigh") else "method"})
        targets = calls("x", "z")
        rng.shuffle(targets)
        for op, ins, a, nout in targets[:4]:
            k += 1
            a = fix(op, ins, a)
            entry = "symmray" if op in ("qr", "svd", "eigh") else "method"
            hot = [f"hot{k}_{j}" for j in range(nout)]
            cold = [f"cold{k}_{j}" for j in range(nout)]
            steps.append({"op": op, "in": ins, "out": hot, "args": a, "entry": entry})
            steps.append({"op": "fresh", "in": ins, "out": cold, "args": {"call": {"op": op, "args": a, "entry": entry}}})
            steps.append({"op": "rel", "in": [], "out": [], "args": {"how": "all_or_none", "names": [hot[0], cold[0]],
                                                                     "clause": f"C15.same_as_fresh_interpreter.{op}.outcome"}})
            for u, v in zip(hot, cold):
                steps.append(rel("obs", f"C15.same_as_fresh_interpreter.{op}", u, v))
            if op in ("fuse", "reshape", "svd_truncated") and rng.random() < 0.7:
                # the cache configured through the environment of a new process: off, a single entry, tiny sector limit
                env = rng.choice([{"SYMMRAY_FUSE_CACHE_MAXSIZE": 0}, {"SYMMRAY_FUSE_CACHE_MAXSIZE": 1},
                                  {"SYMMRAY_FUSE_CACHE_MAXSECTORS": 1}])
                cenv = [f"cenv{k}_{j}" for j in range(nout)]
                steps.append({"op": "fresh", "in": ins, "out": cenv, "args": {"call": {"op": op, "args": a, "entry": entry, "env": env}}})
                steps.append({"op": "rel", "in": [], "out": [], "args": {"how": "all_or_none", "names": [hot[0], cenv[0]],
                                                                         "clause": f"C15.same_with_cache_env.{op}.outcome"}})
                for u, v in zip(hot, cenv):
                    steps.append(rel("obs", f"C15.same_with_cache_env.{op}", u, v))
        # builders of operator arrays: every call returns a new object - changing one result in place must not show in the next
        bsym = rng.choice(["Z2", "U1", "Z2Z2", "U1U1"])
        for bname in rng.sample(["number_spinful", "spin", "hubbard", "number_spinless", "hubbard_spinless"], 3):
            ba = {"name": bname, "sym": bsym if "spinless" not in bname else rng.choice(["Z2", "U1"])}
            k += 1
            steps.append({"op": "builder", "in": [], "out": [f"g{k}a"], "args": ba})
            steps.append({"op": "copy", "in": [f"g{k}a"], "out": [f"g{k}c"], "args": {}})
            steps.append({"op": rng.choice(["ismul", "ismul", "conj"]), "in": [f"g{k}a"], "out": [f"g{k}a"], "args": {"k": [2, 0], "inplace": True}})
            steps.append({"op": "builder", "in": [], "out": [f"g{k}b"], "args": ba})
            steps.append(rel("same", "C15.builders_return_fresh_values", f"g{k}b", f"g{k}c"))
        progs.append({"tid": tids(), "inputs": inputs, "steps": steps})
    return progs


def stress_programs(seed, n, tids=None):
    """Free-running threads on shared arrays (special/stress.py): fuses in both strategies, reshapes and fused
    contractions that hit the same cached plans from every thread."""
    tids = tids or gen.Tids()
    progs = []
    for i in range(n):
        rng = gen.rng_for(seed, "stress", i)
        sym = gen.STATIC_SYMS[i % len(gen.STATIC_SYMS)]
        kind = rng.choice(["abelian", "fermionic"])
        a = gen.rand_array(rng, sym, 4, kind, sparse=0.2, maxc=2, maxd=3, phases=0.3 if kind == "fermionic" else 0.0)
        b = gen.rand_array(rng, sym, 3, kind, sparse=0.2, maxc=3, maxd=3, phases=0.3 if kind == "fermionic" else 0.0)
        from .fuse import total_shape
        sa, sb = total_shape(a), total_shape(b)
        calls = [{"op": "fuse", "in": ["a"], "args": {"groups": [[0, 1], [2, 3]]}},
                 {"op": "fuse", "in": ["a"], "args": {"groups": [[3, 0]], "mode": "concat"}},
                 {"op": "fuse", "in": ["b"], "args": {"groups": [[1, 2]]}},
                 {"op": "reshape", "in": ["a"], "args": {"newshape": [sa[0] * sa[1], sa[2] * sa[3]]}},
                 {"op": "reshape", "in": ["b"], "args": {"newshape": [sb[0], sb[1] * sb[2]]}},
                 {"op": "selfdot", "in": ["a"], "args": {"axes": [[0, 1, 2], [0, 1, 2]], "mode": "fused"}},
                 {"op": "selfdot", "in": ["b"], "args": {"axes": [[0, 2], [0, 2]], "mode": "fused"}}]
        progs.append({"driver": "stress", "tid": tids(), "arrays": {"a": a, "b": b}, "calls": calls,
                      "nthreads": 8, "iters": rng.choice([20, 40]), "maxsize": rng.choice([8192, 8192, 2])})
    return progs
