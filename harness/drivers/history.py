"""C15: results do not depend on call history, caches or threads."""
import copy

from .. import gen
from .fuse import rel, rand_groups


def family(rng, sym):
    """A base array and near-identical variants (each differs in ONE attribute)."""
    base = gen.rand_array(rng, sym, 3, rng.choice(["abelian", "fermionic"]), sparse=0.0, maxc=2, maxd=2)
    base["drop"] = []
    fam = {"v0": base}
    # one dualness flipped (charge re-chosen so that sectors exist)
    v = copy.deepcopy(base)
    k = rng.randrange(3)
    v["ix"][k]["dual"] = not v["ix"][k]["dual"]
    v["charge"] = list(rng.choice(gen.possible_charges(sym, v["ix"])))
    fam["v1"] = v
    # one block size changed
    v = copy.deepcopy(base)
    k = rng.randrange(3)
    v["ix"][k]["cm"][0]["d"] += 1
    fam["v2"] = v
    # one charge label changed
    v = copy.deepcopy(base)
    k = rng.randrange(3)
    have = {tuple(e["c"]) for e in v["ix"][k]["cm"]}
    cand = [c for c in gen.CHARGE_POOL[sym] if c not in have]
    if cand:
        v["ix"][k]["cm"][-1]["c"] = list(rng.choice(cand))
        v["ix"][k]["cm"].sort(key=lambda e: tuple(e["c"]))
        v["charge"] = list(rng.choice(gen.possible_charges(sym, v["ix"])))
        fam["v3"] = v
    # one missing sector
    v = copy.deepcopy(base)
    nsec = len(gen.D.valid_sectors(sym, v["ix"], tuple(v["charge"])))
    if nsec > 1:
        v["drop"] = [rng.randrange(nsec)]
        fam["v4"] = v
    # same charge labels under another symmetry (Z2 <-> U1)
    if sym in ("Z2", "U1"):
        v = copy.deepcopy(base)
        other = "U1" if sym == "Z2" else "Z2"
        if all(tuple(e["c"]) in ((0, 0), (1, 0)) for ix in v["ix"] for e in ix["cm"]):
            v["sym"] = other
            v["cls"] = "static"
            ch = gen.possible_charges(other, v["ix"])
            v["charge"] = list(rng.choice(ch))
            fam["v5"] = v
    for d in fam.values():
        d["fill"] = {"start": 1, "step": 1, "alt": True}
    return fam


def programs(seed, n, syms=gen.SYMS, tids=None):
    tids = tids or gen.Tids()
    progs = []
    for i in range(n):
        rng = gen.rng_for(seed, "history", i)
        sym = syms[i % len(syms)]
        fam = family(rng, sym)
        names = sorted(fam)
        groups = rand_groups(rng, 3, maxgroups=1, allow_single=False)
        steps = [{"op": "set_cache", "in": [], "out": [], "args": {"size": 0, "clear": True}}]
        for nm in names:
            steps.append({"op": "fuse", "in": [nm], "out": [f"ref_f_{nm}"], "args": {"groups": groups}})
            steps.append({"op": "conj", "in": [nm], "out": [f"c_{nm}"], "args": {}})
            steps.append({"op": "tensordot", "in": [nm, f"c_{nm}"], "out": [f"ref_t_{nm}"],
                          "args": {"axes": [[0, 1], [0, 1]], "mode": "fused", "preserve_array": True}, "entry": "symmray"})
        # sub-index structure: a pre-fused variant of the base
        steps.append({"op": "fuse", "in": ["v0"], "out": ["v0f"], "args": {"groups": [[0, 1]]}})
        steps.append({"op": "fuse", "in": ["v0f"], "out": ["ref_ff"], "args": {"groups": [[0, 1]]}})
        size = rng.choice([1, 1, 2, 8192])
        steps.append({"op": "set_cache", "in": [], "out": [], "args": {"size": size, "clear": True}})
        k = 0
        for _ in range(rng.randint(6, 12)):
            nm = rng.choice(names)
            k += 1
            what = rng.random()
            if what < 0.55:
                steps.append({"op": "fuse", "in": [nm], "out": [f"h{k}"], "args": {"groups": groups}})
                steps.append(rel("obs", "C15.history_independent.fuse", f"h{k}", f"ref_f_{nm}"))
            elif what < 0.9:
                steps.append({"op": "tensordot", "in": [nm, f"c_{nm}"], "out": [f"h{k}"],
                              "args": {"axes": [[0, 1], [0, 1]], "mode": "fused", "preserve_array": True},
                              "entry": "symmray"})
                steps.append(rel("obs", "C15.history_independent.tensordot", f"h{k}", f"ref_t_{nm}"))
            else:
                steps.append({"op": "fuse", "in": ["v0f"], "out": [f"h{k}"], "args": {"groups": [[0, 1]]}})
                steps.append(rel("obs", "C15.history_independent.fuse_prefused", f"h{k}", "ref_ff"))
        # the default contraction mode context
        for j in range(2):
            a = {"mode": rng.choice(["fused", "blockwise", "auto"]), "raise": rng.random() < 0.5}
            if rng.random() < 0.5:
                a["nested"] = rng.choice(["fused", "blockwise"])
                a["raise_inner"] = rng.random() < 0.5
            steps.append({"op": "mode_ctx", "in": [], "out": [f"m{j}"], "args": a})
        progs.append({"tid": tids(), "inputs": fam, "steps": steps})
    return progs
