"""C16: all ways of building an array agree; dense conversion round-trips."""
from .. import gen
from .fuse import rel


def to_dense_labels(x):
    """Labels of the dense axes of to_dense(): charges ascending, each repeated by its size."""
    return [[e["c"] for e in sorted(ix["cm"], key=lambda e: tuple(e["c"])) for _ in range(e["d"])] for ix in x["ix"]]


def programs(seed, n, syms=gen.SYMS, kinds=("abelian", "fermionic"), tids=None):
    tids = tids or gen.Tids()
    progs = []
    for i in range(n):
        rng = gen.rng_for(seed, "construct", i)
        sym = syms[i % len(syms)]
        kind = kinds[(i // len(syms)) % len(kinds)]
        rank = rng.randint(1, 3) if rng.random() < 0.9 else 0     # (a scalar is an array too)
        dtype = rng.choice(["float64", "complex128"])
        # the reference tensor: every valid sector stored
        t = gen.rand_array(rng, sym, rank, kind, dtype=dtype, sparse=0.0, oddpos=3, maxd=2,
                           charge=None if rng.random() < 0.6 else (0, 0))
        t["drop"] = []
        if rng.random() < 0.4:
            # force the identity charge so that the defaults apply
            t = gen.rand_array(rng, sym, rank, kind, ixs=t["ix"], dtype=dtype, sparse=0.0, oddpos=3, charge=(0, 0))
            t["drop"] = []
        steps = []
        base = {"sym": sym, "kind": kind, "charge": t["charge"], "oddpos": 3}
        n_out = 0
        for cls in (("static", "dynamic") if sym != "Z4" else ("dynamic",)):
            for charge_given in (True, False):
                for sym_given in ((True, False) if cls == "static" else (True,)):
                    a = dict(base, cls=cls, charge_given=charge_given, sym_given=sym_given,
                             sym_as=rng.choice(["str", "obj"]))
                    for op in ("from_blocks", "construct", "from_fill_fn"):
                        n_out += 1
                        steps.append({"op": op, "in": ["t"], "out": [f"k{n_out}"], "args": dict(a)})
                    n_out += 1
                    steps.append({"op": "construct", "in": ["t"], "out": [f"k{n_out}"],
                                  "args": dict(a, with_blocks=False)})
        # two arrays from one block dictionary, then one of them scaled in place: the other still equals the reference
        for cls in (("static", "dynamic") if sym != "Z4" else ("dynamic",)):
            n_out += 2
            steps.append({"op": "construct_shared", "in": ["t"], "out": [f"k{n_out - 1}", f"k{n_out}"], "args": dict(base, cls=cls)})
            steps.append({"op": "ismul", "in": [f"k{n_out - 1}"], "out": [f"k{n_out - 1}"], "args": {"k": [3, 0]}})
            steps.append(rel("same", "C16.constructed_arrays_independent", "t", f"k{n_out}"))
            steps.append({"op": "fill_missing_blocks", "in": [f"k{n_out}"], "out": [f"k{n_out}"], "args": {}})
            steps.append({"op": "ismul", "in": [f"k{n_out}"], "out": [f"k{n_out}"], "args": {"k": [2, 0]}})
            steps.append({"op": "smul", "in": ["t"], "out": [f"t3_{n_out}"], "args": {"k": [3, 0]}})
            steps.append(rel("same", "C16.constructed_arrays_independent.first", f"t3_{n_out}", f"k{n_out - 1}"))
        # dense round trip with the matching labels
        steps.append({"op": "to_dense", "in": ["t"], "out": ["dn"], "args": {}})
        labels = to_dense_labels(t)
        duals = [ix["dual"] for ix in t["ix"]]
        for cls in (("static", "dynamic") if sym != "Z4" else ("dynamic",)):
            for charge_given in ((True, False) if tuple(t["charge"]) == (0, 0) else (True,)):
                a = dict(base, cls=cls, charge_given=charge_given, sym_given=(cls == "dynamic") or rng.random() < 0.5,
                         labels=labels, duals=duals, maps_as=rng.choice(["list", "dict"]))
                n_out += 1
                steps.append({"op": "from_dense", "in": ["dn"], "out": [f"k{n_out}"], "args": a})
                steps.append(rel("same", "C16.dense_roundtrip", "t", f"k{n_out}"))
        # an arbitrary dense array with interleaved, unsorted labels
        # (axes long enough for one charge to sit at four or more irregularly spaced positions)
        shape = [rng.randint(1, 4 if rank == 3 else 9) for _ in range(rank)]
        pool = gen.CHARGE_POOL[sym]
        lab = [[list(rng.choice(pool[:3])) for _ in range(d)] for d in shape]
        dd = {"kind": "dense", "shape": shape, "dtype": dtype, "fill": {"start": 1, "step": 1, "alt": True}}
        cands = gen.possible_charges(sym, [{"dual": du, "cm": [{"c": c, "d": 1} for c in {tuple(x) for x in l}]}
                                           for du, l in zip(duals, lab)])
        ch = list(rng.choice(cands))
        a = dict(base, cls="dynamic" if sym == "Z4" else rng.choice(["static", "dynamic"]), charge=ch,
                 charge_given=True, sym_given=True, labels=lab, duals=duals)
        if kind == "fermionic":
            a["oddpos"] = 3
        n_out += 1
        steps.append({"op": "from_dense", "in": ["dd"], "out": [f"k{n_out}"], "args": a})
        steps.append({"op": "to_dense", "in": [f"k{n_out}"], "out": ["ddback"], "args": {}})
        progs.append({"tid": tids(), "inputs": {"t": t, "dd": dd}, "steps": steps})
    return progs
