"""C10: conjugation gives the bra."""
from .. import gen
from .fuse import rel


def programs(seed, n, syms=gen.SYMS, tids=None):
    tids = tids or gen.Tids()
    progs = []
    for i in range(n):
        rng = gen.rng_for(seed, "conj", i)
        sym = syms[i % len(syms)]
        rank = rng.randint(0 if rng.random() < 0.1 else 1, 3)
        dtype = rng.choice(["float64", "complex128"])
        allket = rng.random() < 0.3
        ixs = [gen.rand_index(rng, sym, dual=False if allket else None) for _ in range(rank)]
        x = gen.rand_array(rng, sym, rank, "fermionic", ixs=ixs, dtype=dtype, sparse=0.4, phases=0.4,
                           oddpos=rng.randint(0, 9))      # (0 is a label like any other)
        x["fill"]["mod"] = 7
        if rng.random() < 0.3:
            x["oddpos_dual"] = True
        allax = list(range(rank))
        steps = []
        for pd in (False, True):
            t = int(pd)
            steps.append({"op": "conj", "in": ["x"], "out": [f"c{t}"], "args": {"phase_dual": pd},
                          "entry": rng.choice(["method", "symmray", "autoray"])})
            steps.append({"op": "dagger", "in": ["x"], "out": [f"d{t}"], "args": {"phase_dual": pd}})
            # adjoint = conjugate followed by the fermionic reversal of axes (relational form)
            steps.append({"op": "transpose", "in": [f"c{t}"], "out": [f"cT{t}"], "args": {"axes_none": True}})
            steps.append(rel("same", "C10.dagger_is_conj_reversed", f"d{t}", f"cT{t}"))
            # the norm law is about tensors whose own labels are ket-like (the documented
            # integer labels); a bra-like label makes <x|x> a ket-bra pair of the dummy mode
            if (pd or all(not ix["dual"] for ix in ixs)) and not x.get("oddpos_dual"):
                for order, name in ((["c", "x"], "cx"), (["x", "c"], "xc")):
                    ins = [f"c{t}" if o == "c" else "x" for o in order]
                    out = f"n{name}{t}"
                    steps.append({"op": "tensordot", "in": ins, "out": [out],
                                  "args": {"axes": [allax, allax], "mode": rng.choice(["auto", "fused", "blockwise"])},
                                  "entry": "symmray"})
                    steps.append(rel("norm2", "C10.norm." + name, out, "x"))
                    if rank == 1:
                        # the same pairing written with the matrix-product operator
                        steps.append({"op": "matmul", "in": ins, "out": [out + "m"], "args": {}})
                        steps.append(rel("norm2", "C10.norm." + name + ".matmul", out + "m", "x"))
        steps.append({"op": "H", "in": ["x"], "out": ["xH"], "args": {}})
        steps.append(rel("same", "C10.H_is_dagger", "xH", "d0"))
        steps.append({"op": "conj", "in": ["c0"], "out": ["cc"], "args": {}})
        steps.append(rel("same", "C10.conj_twice", "x", "cc"))
        steps.append({"op": "dagger", "in": ["d0"], "out": ["dd"], "args": {}})
        steps.append(rel("same", "C10.dagger_twice", "x", "dd"))
        # both operand orders of <x|x> agree for the default options as well
        steps.append({"op": "tensordot", "in": ["c0", "x"], "out": ["o1"], "args": {"axes": [allax, allax]}, "entry": "symmray"})
        steps.append({"op": "tensordot", "in": ["x", "c0"], "out": ["o2"], "args": {"axes": [allax, allax]}, "entry": "symmray"})
        steps.append(rel("same", "C10.norm.order_independent", "o1", "o2"))
        progs.append({"tid": tids(), "inputs": {"x": x}, "steps": steps})
    return progs


def product_programs(seed, n, syms=gen.SYMS, tids=None):
    """Conjugates of PRODUCTS: y = x . b carries the labels of both factors (two labels when both are odd); conj and
    dagger of y for both settings of the dual-leg option, <y|y> in both orders, and (x.b)* against x* . b*."""
    from .contract import partner_for

    tids = tids or gen.Tids()
    progs = []
    for i in range(n):
        rng = gen.rng_for(seed, "conjprod", i)
        sym = syms[i % len(syms)]
        rank = rng.randint(1, 3)
        allket = rng.random() < 0.5
        ixs = [gen.rand_index(rng, sym, dual=False if allket else None) for _ in range(rank)]
        x = gen.rand_array(rng, sym, rank, "fermionic", ixs=ixs, dtype=rng.choice(["float64", "complex128"]), sparse=0.3,
                           phases=0.3, oddpos=2, parity=1 if rng.random() < 0.8 else None)
        x["fill"]["mod"] = 5
        b, axes_a, axes_b = partner_for(rng, x, 1, rng.randint(1, 2), "fermionic", oddpos=6, phases=0.3, sparse=0.3,
                                        parity=1 if rng.random() < 0.8 else None)
        b["fill"]["mod"] = 5
        steps = [{"op": "tensordot", "in": ["x", "b"], "out": ["y"],
                  "args": {"axes": [list(axes_a), list(axes_b)], "preserve_array": True, "mode": rng.choice(["auto", "blockwise"])},
                  "entry": "symmray"}]
        ry = rank - 1 + len(b["ix"]) - 1
        allax = list(range(ry))
        yket = all(not x["ix"][k]["dual"] for k in range(rank) if k not in axes_a) and \
            all(not b["ix"][k]["dual"] for k in range(len(b["ix"])) if k not in axes_b)
        for pd in (False, True):
            t = int(pd)
            steps.append({"op": "conj", "in": ["y"], "out": [f"yc{t}"], "args": {"phase_dual": pd}})
            steps.append({"op": "dagger", "in": ["y"], "out": [f"yd{t}"], "args": {"phase_dual": pd}})
            steps.append({"op": "transpose", "in": [f"yc{t}"], "out": [f"ycT{t}"], "args": {"axes_none": True}})
            steps.append(rel("same", "C10.dagger_is_conj_reversed.product", f"yd{t}", f"ycT{t}"))
            if pd or yket:
                for order, name in ((["c", "y"], "cy"), (["y", "c"], "yc")):
                    ins = [f"yc{t}" if o == "c" else "y" for o in order]
                    steps.append({"op": "tensordot", "in": ins, "out": [f"n{name}{t}"], "args": {"axes": [allax, allax]}, "entry": "symmray"})
                    steps.append(rel("norm2", "C10.norm.product." + name, f"n{name}{t}", "y"))
        steps.append({"op": "conj", "in": ["yc0"], "out": ["ycc"], "args": {}})
        steps.append(rel("same", "C10.conj_twice.product", "y", "ycc"))
        progs.append({"tid": tids(), "inputs": {"x": x, "b": b}, "steps": steps})
    return progs
