"""C09: lazily tracked signs are unobservable - every operation on a lazy array
and on its sign-synchronised copy."""
from .. import gen
from .contract import partner_for
from .fuse import rand_groups, rel, total_shape, merge_drop_targets


def lazy_prefix(rng, rank, n=3):
    """Operations that leave pending signs behind (never synchronising)."""
    steps = []
    cur = "x0"
    for j in range(n):
        op = rng.choice(["phase_flip", "phase_transpose", "phase_global", "conj2", "transpose2", "phase_flip"])
        nxt = f"x{j + 1}"
        if op == "phase_flip" and rank:
            steps.append({"op": "phase_flip", "in": [cur], "out": [nxt],
                          "args": {"axs": rng.sample(range(rank), rng.randint(1, rank))}})
        elif op == "phase_transpose" and rank:
            p = list(range(rank))
            rng.shuffle(p)
            steps.append({"op": "phase_transpose", "in": [cur], "out": [nxt], "args": {"axes": p}})
        elif op == "conj2":
            # conj twice keeps the index structure, accumulates signs
            steps.append({"op": "conj", "in": [cur], "out": [nxt + "c"], "args": {"phase_dual": rng.random() < 0.5}})
            steps.append({"op": "conj", "in": [nxt + "c"], "out": [nxt], "args": {}})
        elif op == "transpose2" and rank >= 2:
            p = list(range(rank))
            rng.shuffle(p)
            inv = [p.index(i) for i in range(rank)]
            steps.append({"op": "transpose", "in": [cur], "out": [nxt + "t"], "args": {"axes": p}})
            steps.append({"op": "transpose", "in": [nxt + "t"], "out": [nxt], "args": {"axes": inv}})
        else:
            steps.append({"op": "phase_global", "in": [cur], "out": [nxt], "args": {}})
        cur = nxt
    return steps, cur


def twin(steps, op, args, ins_lazy, ins_sync, name, nout=1, entry="method", how="same"):
    lo = [f"{name}L{k}" for k in range(nout)]
    so = [f"{name}S{k}" for k in range(nout)]
    steps.append({"op": op, "in": ins_lazy, "out": lo, "args": dict(args), "entry": entry})
    steps.append({"op": op, "in": ins_sync, "out": so, "args": dict(args), "entry": entry})
    steps.append({"op": "rel", "in": [], "out": [], "args": {"how": "all_or_none", "names": [lo[0], so[0]],
                                                             "clause": f"C09.twin.{op}.outcome"}})
    for a, b in zip(lo, so):
        steps.append(rel(how, f"C09.twin.{op}", a, b))
    return lo, so


def programs(seed, n, syms=gen.SYMS, tids=None):
    tids = tids or gen.Tids()
    progs = []
    for i in range(n):
        rng = gen.rng_for(seed, "lazy", i)
        sym = syms[i % len(syms)]
        rank = rng.randint(0 if rng.random() < 0.1 else 1, 3)
        dtype = rng.choice(["float64", "complex128"])
        x = gen.rand_array(rng, sym, rank, "fermionic", dtype=dtype, sparse=0.4, phases=0.5,
                           oddpos=rng.randint(1, 4))
        steps, lazy = lazy_prefix(rng, rank, rng.randint(1, 3))
        steps.append({"op": "phase_sync", "in": [lazy], "out": ["xs"], "args": {}})
        steps.append({"op": "phase_sync", "in": ["xs"], "out": ["xss"], "args": {}})
        steps.append(rel("obs", "C09.sync_idempotent", "xs", "xss"))
        steps.append({"op": "allclose", "in": [lazy, "xs"], "out": ["ac"], "args": {}})
        steps.append(rel("true", "C09.allclose_lazy_synced", "ac", "ac"))
        L, S = [lazy], ["xs"]
        if rank:
            p = list(range(rank))
            rng.shuffle(p)
            twin(steps, "transpose", {"axes": p}, L, S, "tr")
        for pd in (False, True):
            twin(steps, "conj", {"phase_dual": pd}, L, S, f"cj{int(pd)}")
            twin(steps, "dagger", {"phase_dual": pd}, L, S, f"dg{int(pd)}")
        twin(steps, "smul", {"k": [2, 0]}, L, S, "sm")
        twin(steps, "neg", {}, L, S, "ng")
        twin(steps, "copy", {}, L, S, "cp")
        twin(steps, "to_dense", {}, L, S, "dn")
        twin(steps, "sync_charges", {}, L, S, "sc")
        for fn in ("sum", "max", "min", "abs", "norm_sq", "isfinite"):
            twin(steps, fn, {}, L, S, fn, how="same" if fn != "isfinite" else "bits")
        twin(steps, "clip", {"a_min": -2, "a_max": 2}, L, S, "clip")
        if rank >= 2:
            g = rand_groups(rng, rank)
            fl, fs = twin(steps, "fuse", {"groups": g}, L, S, "fu")
            twin(steps, "unfuse_all", {}, fl, fs, "ufa")
            tg = merge_drop_targets(rng, total_shape(x), 1)
            if tg:
                twin(steps, "reshape", {"newshape": tg[0]}, L, S, "rs")
        if rank >= 1:
            twin(steps, "expand_dims", {"axis": rng.randint(0, rank)}, L, S, "ex")
        # operations that DELETE blocks while their signs are pending, followed by one that puts blocks back
        if rank:
            dax = rng.randrange(rank)
            cm = x["ix"][dax]["cm"]
            if len(cm) > 1:
                keep = [e for k, e in enumerate(cm) if k != rng.randrange(len(cm))]
                inputs_extra = {"vmiss": {"kind": "vector", "sym": sym, "blocks": [{"c": e["c"], "d": e["d"]} for e in keep],
                                          "dtype": dtype, "fill": {"start": 2, "step": 1, "alt": False}}}
                ml, ms = twin(steps, "multiply_diagonal", {"axis": dax}, [lazy, "vmiss"], ["xs", "vmiss"], "mdm")
                twin(steps, "add", {}, [ml[0], "xs"], [ms[0], "xs"], "mdadd")
                twin(steps, "add", {}, ["xs", ml[0]], ["xs", ms[0]], "mdadd2")
            else:
                inputs_extra = {}
        else:
            inputs_extra = {}
        # binary operations with a partner / with itself
        twin(steps, "add", {}, [lazy, lazy], ["xs", "xs"], "ad")
        twin(steps, "add", {}, [lazy, "xs"], ["xs", lazy], "ad2")
        twin(steps, "sub", {}, [lazy, "xs"], ["xs", lazy], "sb")
        steps.append({"op": "smul", "in": ["xs"], "out": ["xs3"], "args": {"k": [3, 0]}})
        twin(steps, "sub", {}, [lazy, "xs3"], ["xs", "xs3"], "sb3")
        twin(steps, "sub", {}, ["xs3", lazy], ["xs3", "xs"], "sb3r")
        twin(steps, "mul", {}, [lazy, lazy], ["xs", "xs"], "ml")
        if rank >= 2:
            pf = list(range(rank))
            rng.shuffle(pf)
            twin(steps, "transpose", {"axes": pf, "phase": False}, [lazy], ["xs"], "tnp")
            twin(steps, "transpose", {"axes": pf[1:] + pf[:1], "phase": False}, [lazy], ["xs"], "tnp2")
        inputs = {"x0": x}
        inputs.update(inputs_extra)
        if rank:
            ncon = rng.randint(1, rank)
            b, axes_a, axes_b = partner_for(rng, x, ncon, rng.randint(0, 2), "fermionic", oddpos=rng.randint(5, 8),
                                            phases=0.5)
            inputs["b"] = b
            for mode in ("fused", "blockwise"):
                twin(steps, "tensordot", {"axes": [axes_a, axes_b], "mode": mode}, [lazy, "b"], ["xs", "b"],
                     "td" + mode[0], entry="symmray")
                twin(steps, "tensordot", {"axes": [axes_b, axes_a], "mode": mode, "preserve_array": True},
                     ["b", lazy], ["b", "xs"], "tdr" + mode[0], entry="symmray")
            # outer products (no contracted leg), both operand orders, both axes forms
            o, _, _ = partner_for(rng, x, 0, rng.randint(1, 2), "fermionic", oddpos=rng.randint(11, 14), phases=0.5, maxd=2)
            inputs["o"] = o
            twin(steps, "tensordot", {"axes": [[], []], "mode": rng.choice(["auto", "fused", "blockwise"])}, [lazy, "o"], ["xs", "o"],
                 "outa", entry="symmray")
            twin(steps, "tensordot", {"naxes": 0}, ["o", lazy], ["o", "xs"], "outb", entry="symmray")
            # with its own conjugate, over everything: a scalar kept as an array, then read out
            allax = list(range(rank))
            steps.append({"op": "conj", "in": [lazy], "out": ["xc"], "args": {"phase_dual": True}})
            nl, ns = twin(steps, "tensordot", {"axes": [allax, allax], "preserve_array": True}, ["xc", lazy],
                          ["xc", "xs"], "nrm", entry="symmray")
            twin(steps, "item", {}, nl, ns, "it")
            twin(steps, "float", {"complex": True}, nl, ns, "fl")
        if rank == 2:
            twin(steps, "trace", {}, L, S, "trc")
            twin(steps, "einsum", {"eq": "ab->ba", "lhs": [0, 1], "rhs": [1, 0]}, L, S, "es")
        # arrays DERIVED from the lazy one own their pending signs: synchronising the source in place afterwards must
        # not change them, and synchronising / accumulating into a derived array must not change the source
        steps.append({"op": "copy", "in": [lazy], "out": ["lz"], "args": {}})
        steps.append({"op": "sync_charges", "in": ["lz"], "out": ["d1"], "args": {}})
        derived = ["d1"]
        more = [("neg", {}), ("smul", {"k": [2, 0]}), ("conj", {}), ("dagger", {}), ("expand_dims", {"axis": 0}), ("phase_global", {})]
        if rank:
            pm = list(range(rank))
            rng.shuffle(pm)
            more += [("transpose", {"axes": pm}), ("phase_flip", {"axs": [rng.randrange(rank)]}), ("phase_transpose", {"axes": pm})]
        if rank >= 2:
            more += [("fuse", {"groups": [[0, 1]]})]
        rng.shuffle(more)
        for j, (op, a) in enumerate(more[:4]):
            steps.append({"op": op, "in": ["lz"], "out": [f"dm{j}"], "args": a})
            derived.append(f"dm{j}")
        if rank == 2:
            # (the factors themselves are not unique - a lazy and a synchronised input may give Q's differing by signs -
            # so each derived array is compared with a copy of ITSELF taken before the source is touched)
            steps.append({"op": "qr", "in": ["lz"], "out": ["dq", "dr"], "args": {}})
            steps.append({"op": "svd", "in": ["lz"], "out": ["du", "dsv", "dvh"], "args": {}})
            derived += ["dq", "du"]
        for d in derived:
            steps.append({"op": "copy", "in": [d], "out": [d + "0"], "args": {}})
        steps.append({"op": "phase_sync", "in": ["lz"], "out": ["lz"], "args": {"inplace": True}})
        for d in derived:
            steps.append(rel("same", "C09.derived_unaffected_by_source_sync", d, d + "0"))
        steps.append(rel("same", "C09.derived_unaffected_by_source_sync.twin", "d1", "xs"))
        # the other direction, from a fresh lazy copy
        steps.append({"op": "copy", "in": [lazy], "out": ["lw"], "args": {}})
        steps.append({"op": "sync_charges", "in": ["lw"], "out": ["e1"], "args": {}})
        steps.append({"op": rng.choice(["phase_sync", "conj"]), "in": ["e1"], "out": ["e1"], "args": {"inplace": True}})
        if rank == 2:
            steps.append({"op": "qr", "in": ["lw"], "out": ["eq", "er"], "args": {}})
            steps.append({"op": "iadd", "in": ["eq", "eq"], "out": ["eq"], "args": {}})
        steps.append(rel("same", "C09.source_unaffected_by_derived_sync", "lw", "xs"))
        progs.append({"tid": tids(), "inputs": inputs, "steps": steps})
    return progs
