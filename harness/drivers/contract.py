"""Programs exercising contraction (C02 abelian, C03 fermionic share this)."""

from .. import gen


def _stored(desc):
    secs = gen.D.valid_sectors(desc["sym"], desc["ix"], tuple(desc["charge"]))
    drop = set(desc.get("drop", ()))
    return [s for k, s in enumerate(secs) if k not in drop]


def overlaps(a, b, axes_a, axes_b):
    """Do a and b store at least one pair of sectors that agree on the contracted legs?"""
    keys = {tuple(tuple(s[i]) for i in axes_a) for s in _stored(a)}
    return any(tuple(tuple(s[j]) for j in axes_b) in keys for s in _stored(b))


def partner_for(rng, a, ncon, nfree, kind, **kw):
    """A contraction partner for `a`; redrawn (most of the time) until the contraction has something to sum."""
    want = rng.random() < 0.85
    for attempt in range(25):
        b, axes_a, axes_b = _partner_for(rng, a, ncon, nfree, kind, **kw)
        if not want or not _stored(a) or overlaps(a, b, axes_a, axes_b):
            break
    return b, axes_a, axes_b


def _partner_for(rng, a, ncon, nfree, kind, **kw):
    ra = len(a["ix"])
    axes_a = rng.sample(range(ra), ncon)
    rb = ncon + nfree
    axes_b = rng.sample(range(rb), ncon)
    sym = a["sym"]
    ixs = [None] * rb
    for i, j in zip(axes_a, axes_b):
        ixs[j] = gen.conj_index(a["ix"][i])
    for j in range(rb):
        if ixs[j] is None:
            ixs[j] = gen.rand_index(rng, sym, kw.get("maxc", 3), kw.get("maxd", 2))
    b = gen.rand_array(rng, sym, rb, kind, ixs=ixs, dtype=a["dtype"], cls=a["cls"],
                       start=rng.randint(10, 19), sparse=kw.get("sparse", 0.5),
                       parity=kw.get("parity"), oddpos=kw.get("oddpos"), phases=kw.get("phases", 0.0))
    return b, axes_a, axes_b


def tensordot_steps(rng, ra, rb, axes_a, axes_b, modes, out_prefix="c", fermi=False):
    steps = []
    n = 0
    for mode in modes:
        args = {"axes": [list(axes_a), list(axes_b)]}
        form = rng.random()
        if form < 0.25 and axes_a:
            # negative axes
            args["axes"] = [[i - ra for i in axes_a], [j - rb for j in axes_b]]
        if mode is not None:
            args["mode"] = mode
        if rng.random() < 0.3:
            args["preserve_array"] = True
        n += 1
        steps.append({"op": "tensordot", "in": ["a", "b"], "out": [f"{out_prefix}{n}"], "args": args,
                      "entry": rng.choice(["symmray", "autoray"])})
    # the int form, when the contracted axes are the last of a and the first of b
    k = len(axes_a)
    if list(axes_a) == list(range(ra - k, ra)) and list(axes_b) == list(range(k)):
        n += 1
        steps.append({"op": "tensordot", "in": ["a", "b"], "out": [f"{out_prefix}{n}"],
                      "args": {"naxes": k}, "entry": "symmray"})
    return steps


def programs(seed, n, kind="abelian", syms=gen.SYMS, tids=None, dtypes=("float64", "complex128"),
             maxrank=3, salt="contract"):
    tids = tids or gen.Tids()
    progs = []
    for i in range(n):
        rng = gen.rng_for(seed, salt, kind, i)
        sym = syms[i % len(syms)]
        ra = rng.randint(0 if rng.random() < 0.1 else 1, maxrank)
        dtype = dtypes[(i // len(syms)) % len(dtypes)]
        a = gen.rand_array(rng, sym, ra, kind, dtype=dtype, sparse=0.5,
                           phases=0.3 if kind == "fermionic" else 0.0, oddpos=rng.randint(1, 4))
        ncon = rng.randint(0, ra)
        nfree = rng.randint(0, maxrank - ncon) if maxrank > ncon else 0
        if ncon == ra and rng.random() < 0.3:
            nfree = 0  # full contraction -> scalar
        b, axes_a, axes_b = partner_for(rng, a, ncon, nfree, kind, oddpos=rng.randint(5, 8),
                                        phases=0.3 if kind == "fermionic" else 0.0)
        modes = ["auto", "fused", "blockwise", "default"]
        steps = tensordot_steps(rng, ra, len(b["ix"]), axes_a, axes_b, modes)
        if ra in (1, 2) and len(b["ix"]) in (1, 2) and ncon == 1 and axes_a == [ra - 1] and axes_b == [0]:
            steps.append({"op": "matmul", "in": ["a", "b"], "out": ["m"], "args": {}})
        inputs = {"a": a, "b": b}
        if i % 3 == 0 and ncon:
            # the same pair of structures with the OTHER kind of numbers, contracted right after (warm plans)
            other = "complex128" if a["dtype"] in ("float64", "float32") else "float64"
            inputs["a2"] = dict(a, dtype=other, fill={"start": 3, "step": 1, "alt": True})
            inputs["b2"] = dict(b, dtype=other, fill={"start": 13, "step": 1, "alt": True})
            for mode in ("fused", "auto"):
                steps.append({"op": "tensordot", "in": ["a2", "b2"], "out": [f"c2_{mode}"],
                              "args": {"axes": [list(axes_a), list(axes_b)], "mode": mode, "preserve_array": True}, "entry": "symmray"})
        progs.append({"tid": tids(), "inputs": inputs, "steps": steps,
                      "group": f"{salt}-{kind}-{i}"})
    return progs


def matmul_programs(seed, n, kind="abelian", syms=gen.SYMS, tids=None, salt="matmul"):
    tids = tids or gen.Tids()
    progs = []
    for i in range(n):
        rng = gen.rng_for(seed, salt, kind, i)
        sym = syms[i % len(syms)]
        ra, rb = rng.choice([(1, 1), (1, 2), (2, 1), (2, 2)])
        dtype = rng.choice(["float64", "complex128"])
        a = gen.rand_array(rng, sym, ra, kind, dtype=dtype, phases=0.3 if kind == "fermionic" else 0.0,
                           oddpos=rng.randint(1, 4))
        ixs = [gen.conj_index(a["ix"][-1])] + [gen.rand_index(rng, sym) for _ in range(rb - 1)]
        b = gen.rand_array(rng, sym, rb, kind, ixs=ixs, dtype=dtype, cls=a["cls"], start=11,
                           phases=0.3 if kind == "fermionic" else 0.0, oddpos=rng.randint(5, 8))
        steps = [{"op": "matmul", "in": ["a", "b"], "out": ["m"], "args": {}}]
        # square matrix with conjugate pair of indices: trace
        ix0 = gen.rand_index(rng, sym)
        t = gen.rand_array(rng, sym, 2, kind, ixs=[ix0, gen.conj_index(ix0)], charge=(0, 0),
                           dtype=dtype, cls=a["cls"], start=21, phases=0.3 if kind == "fermionic" else 0.0)
        steps.append({"op": "trace", "in": ["t"], "out": ["tr"], "args": {},
                      "entry": rng.choice(["method", "symmray", "autoray"])})
        progs.append({"tid": tids(), "inputs": {"a": a, "b": b, "t": t}, "steps": steps})
    return progs


def sparse_rank4_programs(seed, n, kind="abelian", syms=gen.SYMS, tids=None, salt="sparse4", rel_clause=None):
    """First operand with two (or more) free and two contracted legs on NON-leading positions and a few
    blocks missing, second operand complete: the two operands then assemble the fused contracted index from
    different sets of pieces (the layout inside a fused charge must not depend on which blocks are stored)."""
    tids = tids or gen.Tids()
    progs = []
    for i in range(n):
        rng = gen.rng_for(seed, salt, kind, i)
        sym = syms[i % len(syms)]
        ra = 4 if rng.random() < 0.8 else 3
        a = gen.rand_array(rng, sym, ra, kind, dtype=rng.choice(["float64", "complex128"]), sparse=0.0, minc=2, maxc=2,
                           maxd=1 if rng.random() < 0.6 else 2, phases=0.3 if kind == "fermionic" else 0.0,
                           oddpos=rng.randint(1, 4))
        nsec = len(gen.D.valid_sectors(sym, a["ix"], tuple(a["charge"])))
        if nsec >= 2:
            k = rng.randint(1, min(3, nsec - 1))
            a["drop"] = sorted(set([0] if rng.random() < 0.6 else []) | set(rng.sample(range(nsec), k)))
        ncon = 2 if ra == 4 else rng.randint(1, 2)
        nfree = rng.randint(0, 2)
        b, axes_a, axes_b = partner_for(rng, a, ncon, nfree, kind, oddpos=rng.randint(5, 8), sparse=0.0, maxc=2, maxd=1,
                                        phases=0.3 if kind == "fermionic" else 0.0)
        b["drop"] = [] if rng.random() < 0.7 else b["drop"]
        steps = []
        outs = []
        for mode in ("fused", "blockwise", "auto"):
            o = f"c_{mode}"
            steps.append({"op": "tensordot", "in": ["a", "b"], "out": [o],
                          "args": {"axes": [list(axes_a), list(axes_b)], "mode": mode, "preserve_array": True},
                          "entry": "symmray"})
            outs.append(o)
        if rel_clause:
            steps.append({"op": "rel", "in": [outs[0], outs[1]], "out": [], "args": {"how": "array_equal_den", "clause": rel_clause}})
            steps.append({"op": "rel", "in": [outs[0], outs[2]], "out": [], "args": {"how": "array_equal_den", "clause": rel_clause + ".auto"}})
        # and the other way round
        steps.append({"op": "tensordot", "in": ["b", "a"], "out": ["c_rev"],
                      "args": {"axes": [list(axes_b), list(axes_a)], "mode": "fused", "preserve_array": True},
                      "entry": "symmray"})
        progs.append({"tid": tids(), "inputs": {"a": a, "b": b}, "steps": steps})
    return progs
