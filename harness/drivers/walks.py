from .. import gen


def walk_programs(seed, n, kinds=("abelian", "fermionic"), syms=gen.SYMS, dtypes=gen.DTYPES, depth=7, tids=None,
                  salt="walk"):
    tids = tids or gen.Tids()
    progs = []
    for i in range(n):
        sym = syms[i % len(syms)]
        kind = kinds[(i // len(syms)) % len(kinds)]
        dtype = dtypes[(i // (len(syms) * len(kinds))) % len(dtypes)]
        cls = "dynamic" if sym == "Z4" or (i // 3) % 3 == 0 else "static"
        progs.append({"driver": "walk", "tid": tids(), "seed": f"{seed}-{salt}", "sym": sym, "kind": kind,
                      "dtype": dtype, "cls": cls, "depth": depth})
    return progs
