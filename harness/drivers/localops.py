"""Program generators for C18 (local operators) and C19 (edge Hamiltonians)."""
import itertools

from .. import gen

SPINFUL_LABELS = {
    "Z2": [[0, 0], [1, 0], [1, 0], [0, 0]],
    "U1": [[0, 0], [1, 0], [1, 0], [2, 0]],
    "Z2Z2": [[0, 0], [0, 1], [1, 0], [1, 1]],
    "U1U1": [[0, 0], [0, 1], [1, 0], [1, 1]],
}
SPINLESS_LABELS = {"Z2": [[0, 0], [1, 0]], "U1": [[0, 0], [1, 0]]}


def random_string_programs(seed, n, tids):
    """Arbitrary terms and bases (no symmetry needed): elements only."""
    progs = []
    for i in range(n):
        rng = gen.rng_for(seed, "lo-str", i)
        nmodes = rng.randint(1, 4)
        labels = rng.choice([list("abcd"), ["ad", "au", "bd", "bu"], [3, 1, 2, 0], ["x1", "x0", "y", "z"]])[:nmodes]
        modes = list(labels)
        nsites = rng.randint(1, min(3, nmodes))
        # distribute modes over sites
        owner = [rng.randrange(nsites) for _ in range(nmodes)]
        for s in range(nsites):
            if s not in owner:
                owner[rng.randrange(nmodes)] = s
        bases = []
        for s in range(nsites):
            mine = [m for m in range(nmodes) if owner[m] == s]
            states = [[]]
            for k in range(1, len(mine) + 1):
                for sub in itertools.combinations(mine, k):
                    sub = list(sub)
                    rng.shuffle(sub)
                    states.append([[m, "+"] for m in sub])
            rng.shuffle(states)
            states = states[: rng.randint(1, len(states))]
            bases.append(states)
        terms = []
        for _ in range(rng.randint(1, 4)):
            ln = rng.randint(0, 6)
            terms.append([rng.choice([1, 2, -3, 5, [0, 1], [2, -1]]), [[rng.randrange(nmodes), rng.choice("+-")] for _ in range(ln)]])
        progs.append({"driver": "localops", "tid": tids(), "sym": "Z2", "modes": modes, "terms": terms, "bases": bases})
    return progs


def hop(rng, sites, spins):
    x, y = rng.choice(sites), rng.choice(sites)
    s = rng.choice(spins)
    return [[(x, s), "+"], [(y, s), "-"]]


def model_programs(seed, n, tids, apply=True):
    """Symmetric operators on 1-3 sites in the library's spinless / spinful bases, applied to
    every basis tensor, with a second operator for the product law."""
    progs = []
    for i in range(n):
        rng = gen.rng_for(seed, "lo-model", i)
        spinful = rng.random() < 0.6
        sym = rng.choice(["Z2", "U1", "Z2Z2", "U1U1"] if spinful else ["Z2", "U1"])
        nsites = rng.choice([1, 2, 2, 3]) if not spinful else rng.choice([1, 2, 2])
        names = "abc"[:nsites]
        spins = ["d", "u"] if spinful else [""]
        modes = [f"{x}{s}" for x in names for s in spins]
        idx = {(x, s): k for k, (x, s) in enumerate((x, s) for x in names for s in spins)}

        def term():
            ops = []
            for _ in range(rng.randint(1, 2 if spinful else 3)):
                ops += hop(rng, list(names), spins)
            if sym in ("Z2", "Z2Z2") and rng.random() < 0.3:
                # pair creation / annihilation conserves parity only
                x, y = rng.choice(names), rng.choice(names)
                s = rng.choice(spins)
                if (x, s) != (y, s):
                    ops = [[(x, s), "+"], [(y, s), "+"]] if rng.random() < 0.5 else [[(x, s), "-"], [(y, s), "-"]]
            return [rng.choice([1, 2, -1, 3, 1, 2, [0, 1], [1, -2]]), [[idx[m], c] for m, c in ops]]

        terms = [term() for _ in range(rng.randint(1, 4))]
        terms2 = [term() for _ in range(rng.randint(1, 2))]
        if spinful:
            bases = [[[], [[idx[(x, "d")], "+"]], [[idx[(x, "u")], "+"]], [[idx[(x, "u")], "+"], [idx[(x, "d")], "+"]]]
                     for x in names]
            labels = [SPINFUL_LABELS[sym]] * nsites
        else:
            bases = [[[], [[idx[(x, "")], "+"]]] for x in names]
            labels = [SPINLESS_LABELS[sym]] * nsites
        if nsites >= 2 and rng.random() < 0.5:
            # one site lists its occupation states in another order: the sites then have DIFFERENT charge maps
            s0 = rng.randrange(nsites)
            order = list(range(len(bases[s0])))
            rng.shuffle(order)
            bases[s0] = [bases[s0][o] for o in order]
            labels = [list(l) for l in labels]
            labels[s0] = [labels[s0][o] for o in order]
        progs.append({"driver": "localops", "tid": tids(), "sym": sym, "modes": modes, "terms": terms, "terms2": terms2,
                      "bases": bases, "labels": labels, "apply": apply, "max_states": 16 if spinful else 8})
    return progs


def all_simple_graphs(nsites):
    pairs = list(itertools.combinations(range(nsites), 2))
    for mask in range(1, 2 ** len(pairs)):
        edges = [pairs[k] for k in range(len(pairs)) if mask >> k & 1]
        if {v for e in edges for v in e} == set(range(nsites)):
            yield edges


def ham_programs(seed, tids, quick=True):
    progs = []
    graphs = []
    for ns in (2, 3, 4):
        graphs += [(ns, g) for g in all_simple_graphs(ns)]
    rng0 = gen.rng_for(seed, "hams")
    extra = []
    for ns in (5, 6):
        pairs = list(itertools.combinations(range(ns), 2))
        for _ in range(6 if quick else 60):
            k = rng0.randint(ns - 1, min(len(pairs), ns + 3))
            edges = rng0.sample(pairs, k)
            if {v for e in edges for v in e} == set(range(ns)):
                extra.append((ns, edges))
    if quick:
        graphs = rng0.sample(graphs, 24)
    for gi, (ns, edges) in enumerate(graphs + extra):
        rng = gen.rng_for(seed, "ham", gi)
        for model in ("spinful", "spinless"):
            sym = rng.choice(["Z2", "U1", "Z2Z2", "U1U1"] if model == "spinful" else ["Z2", "U1"])
            kind = rng.choice(["int", "tuple", "str"])
            perm = list(range(ns))
            rng.shuffle(perm)
            sites = [{"int": p * 3 - 2, "tuple": [p // 2, p % 2], "str": "s" + "zyxwvu"[p]}[kind] for p in perm]
            ed = [list(e) if rng.random() < 0.5 else [e[1], e[0]] for e in edges]
            rng.shuffle(ed)
            form = {"t": rng.choice(["dict", "dict_rev", "callable"]), "V": rng.choice(["dict", "dict_rev", "callable"]),
                    "U": rng.choice(["dict", "callable"]), "mu": rng.choice(["dict", "callable"])}
            prog = {"driver": "hams", "tid": tids(), "sym": sym, "model": model, "sites": sites, "edges": ed,
                    # (some bonds carry no two-site coupling at all - a cut or diluted lattice: their share of the on-site terms stays)
                    "t": [rng.choice([1, 2, 3, 7, 0]) for _ in ed], "V": [rng.choice([0, 5, 7]) for _ in ed],
                    "U": [60 * rng.randint(1, 4) for _ in sites], "mu": [60 * rng.randint(0, 3) for _ in sites], "form": form}
            multi = rng.random() < 0.25
            if multi:
                # a second bond between two already connected sites, listed in the opposite orientation (what periodic
                # boundaries along a direction of length two produce): degrees count BONDS, not neighbours
                a, b = rng.choice(ed)
                if [b, a] not in ed:
                    prog["multi"] = True
                    ed.append([b, a])
                    prog["t"].append(2)
                    prog["V"].append(5)
            if multi or rng.random() < 0.2:
                # scalar coefficients everywhere
                prog["form"] = {"t": "scalar", "V": "scalar", "U": "scalar", "mu": "scalar"}
                prog["t"] = [2] * len(ed)
                prog["V"] = [5] * len(ed)
                prog["U"] = [120] * len(sites)
                prog["mu"] = [60] * len(sites)
            progs.append(prog)
    return progs


def builder_programs(seed, n, tids):
    """The shipped builders with direct arguments: every symmetry they accept, scalar and per-site U / mu,
    coordinations 1-4 (coefficients are multiples of 12 so that the divisions are exact)."""
    progs = []
    for i in range(n):
        rng = gen.rng_for(seed, "lo-builders", i)
        calls = []
        for sym in ("Z2", "U1", "Z2Z2", "U1U1"):
            z = [rng.randint(1, 4), rng.randint(1, 4)]
            pair = rng.random() < 0.6
            U = [12 * rng.randint(0, 3), 12 * rng.randint(0, 3)]
            mu = [12 * rng.randint(-2, 2), 12 * rng.randint(-2, 2)]
            if not pair:
                U, mu = [U[0], U[0]], [mu[0], mu[0]]
            calls.append({"name": "hubbard", "sym": sym, "t": rng.choice([1, 2, -1, 3]), "U": U, "mu": mu, "z": z, "pair_args": pair})
            calls.append({"name": "number_spinful", "sym": sym})
            calls.append({"name": "spin", "sym": sym, "scale": 2})
        for sym in ("Z2", "U1"):
            z = [rng.randint(1, 4), rng.randint(1, 4)]
            pair = rng.random() < 0.6
            mu = [12 * rng.randint(-2, 2), 12 * rng.randint(-2, 2)]
            if not pair:
                mu = [mu[0], mu[0]]
            calls.append({"name": "hubbard_spinless", "sym": sym, "t": rng.choice([1, 2, -1]), "V": rng.randint(0, 5), "mu": mu, "z": z,
                          "pair_args": pair})
            calls.append({"name": "number_spinless", "sym": sym})
        progs.append({"driver": "localbuilders", "tid": tids(), "calls": calls})
    return progs
