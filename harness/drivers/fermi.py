"""Programs for the fermionic layer."""
import itertools

from .. import gen


def transpose_programs(seed, n, kind="fermionic", syms=gen.SYMS, tids=None):
    tids = tids or gen.Tids()
    progs = []
    for i in range(n):
        rng = gen.rng_for(seed, "transpose", kind, i)
        sym = syms[i % len(syms)]
        r = rng.randint(1, 4)
        x = gen.rand_array(rng, sym, r, kind, phases=0.4, dtype=rng.choice(["float64", "complex128"]),
                           maxc=2 if r == 4 else 3)
        steps = []
        perms = list(itertools.permutations(range(r)))
        rng.shuffle(perms)
        for j, p in enumerate(perms[:4]):
            steps.append({"op": "transpose", "in": ["x"], "out": [f"t{j}"], "args": {"axes": list(p)},
                          "entry": rng.choice(["method", "symmray", "autoray"])})
        steps.append({"op": "transpose", "in": ["x"], "out": ["tn"], "args": {"axes_none": True}})
        steps.append({"op": "T", "in": ["x"], "out": ["tT"], "args": {}})
        # transposing twice composes
        if len(perms) > 1:
            p, q = perms[0], perms[1]
            steps.append({"op": "transpose", "in": ["t0"], "out": ["tt"], "args": {"axes": list(q)}})
        progs.append({"tid": tids(), "inputs": {"x": x}, "steps": steps})
    return progs


def einsum_case(rng, sym, kind, dtype="float64"):
    """A single-array einsum with 0-2 traced pairs and any output order."""
    npairs = rng.randint(0, 2)
    nkept = rng.randint(0, 4 - 2 * npairs if npairs else 3)
    if npairs == 0 and nkept == 0:
        nkept = 1
    letters = []
    ixs = []
    for p in range(npairs):
        ix = gen.rand_index(rng, sym, maxc=2)
        letters += [p, p]
        ixs += [ix, gen.conj_index(ix)]
    for k in range(nkept):
        letters.append(10 + k)
        ixs.append(gen.rand_index(rng, sym, maxc=2))
    order = list(range(len(letters)))
    rng.shuffle(order)
    lhs = [letters[i] for i in order]
    ixs = [ixs[i] for i in order]
    rhs = [10 + k for k in range(nkept)]
    rng.shuffle(rhs)
    x = gen.rand_array(rng, sym, len(ixs), kind, ixs=ixs, dtype=dtype, phases=0.4 if kind == "fermionic" else 0,
                       sparse=0.4)
    names = {}
    for c in lhs:
        names.setdefault(c, "abcdefghij"[len(names)])
    eq = "".join(names[c] for c in lhs) + "->" + "".join(names[c] for c in rhs)
    return x, eq, lhs, rhs


def einsum_programs(seed, n, kind, syms=gen.SYMS, tids=None):
    tids = tids or gen.Tids()
    progs = []
    for i in range(n):
        rng = gen.rng_for(seed, "einsum", kind, i)
        sym = syms[i % len(syms)]
        x, eq, lhs, rhs = einsum_case(rng, sym, kind, rng.choice(["float64", "complex128"]))
        args = {"eq": eq, "lhs": lhs, "rhs": rhs}
        steps = [{"op": "einsum", "in": ["x"], "out": ["e1"], "args": dict(args),
                  "entry": rng.choice(["method", "symmray", "autoray"])}]
        if not rhs:
            steps.append({"op": "einsum", "in": ["x"], "out": ["e2"], "args": dict(args, preserve_array=True)})
        progs.append({"tid": tids(), "inputs": {"x": x}, "steps": steps})
    return progs
