"""Build symmray inputs from spec-level descriptors, independently of the
library's own sector enumeration (the group arithmetic here is the harness's
own, so that a broken ``gen_valid_sectors`` cannot make inputs invalid).

descriptor = {
  "kind": "abelian" | "fermionic" | "vector",
  "cls": "static" | "dynamic",
  "sym": "Z2" | "Z4" | "U1" | "Z2Z2" | "U1U1",
  "charge": [a, b],
  "ix": [{"dual": bool, "cm": [{"c": [a, b], "d": n}, ...]}, ...],
  "drop": [k, ...]            # positions (in lexicographic sector order) of valid sectors left out
  "dtype": "float64" | "float32" | "complex64" | "complex128",
  "fill": {"start": n, "step": m, "alt": bool}   # counting fill: distinct non-zero integers
  "oddpos": int               # label for odd fermionic arrays
  "phases": [k, ...]          # positions of stored sectors given a pending -1
}
"""

import itertools

import os

import numpy as np

TWO = ("Z2Z2", "U1U1")


def py_charge(sym, c):
    a, b = c
    return (int(a), int(b)) if sym in TWO else int(a)


def combine(sym, c, d):
    if sym == "Z2":
        return ((c[0] + d[0]) % 2, 0)
    if sym == "Z4":
        return ((c[0] + d[0]) % 4, 0)
    if sym == "U1":
        return (c[0] + d[0], 0)
    if sym == "Z2Z2":
        return ((c[0] + d[0]) % 2, (c[1] + d[1]) % 2)
    if sym == "U1U1":
        return (c[0] + d[0], c[1] + d[1])
    raise ValueError(sym)


def neg(sym, c):
    if sym in ("Z2", "Z2Z2"):
        return tuple(c)
    if sym == "Z4":
        return ((4 - c[0]) % 4, 0)
    return (-c[0], -c[1])


def parity(sym, c):
    return (c[0] + c[1]) % 2


def valid_sectors(sym, ixs, charge):
    """All charge-conserving sectors in lexicographic order (pairs)."""
    out = []
    tables = [[tuple(e["c"]) for e in ix["cm"]] for ix in ixs]
    for s in itertools.product(*tables):
        tot = (0, 0)
        for c, ix in zip(s, ixs):
            tot = combine(sym, tot, neg(sym, c) if ix["dual"] else c)
        if tot == tuple(charge):
            out.append(s)
    return out


def get_class(kind, cls, sym):
    import symmray as sr

    if cls == "dynamic" or sym == "Z4":
        return (sr.FermionicArray if kind == "fermionic" else sr.AbelianArray), True
    name = sym + ("FermionicArray" if kind == "fermionic" else "Array")
    return getattr(sr, name), False


class Counter:
    """Counting fill: every element of an input gets a distinct non-zero
    integer, so that a misplaced element is always visible."""

    def __init__(self, fill, dtype):
        self.n = int(fill.get("start", 1))
        self.step = int(fill.get("step", 1))
        self.alt = bool(fill.get("alt", True))
        self.mod = int(fill.get("mod", 0))
        self.square = bool(fill.get("square", False))
        self.pattern = fill.get("pattern", "")
        self.floaty = bool(fill.get("float", False))
        self.zero_every = int(fill.get("zero_every", 0))   # every n-th block is stored but identically zero
        self.nblocks = 0
        self.dtype = dtype
        self.k = 0

    def value(self):
        v = self.n
        self.n += self.step
        self.k += 1
        if self.mod:
            v = 1 + (v - 1) % self.mod
        if self.square:
            return v * v
        if self.alt and self.k % 3 == 0:
            v = -v
        return v

    def monomial(self, shape, pattern):
        """Integer families for the LAPACK kernels: at most one non-zero per row and
        column, pairwise distinct magnitudes (perfect squares with 'square')."""
        m, n = shape
        a = np.zeros((m, n), dtype="float64")
        k = min(m, n)
        if pattern == "diag":
            cols = list(range(k))
        else:
            cols = list(range(n))
            # deterministic shuffle
            for i in range(n - 1, 0, -1):
                j = (self.n * 7 + i * 3) % (i + 1)
                cols[i], cols[j] = cols[j], cols[i]
        for i in range(k):
            v = self.value()
            if pattern == "monomial_deficient" and i == k - 1 and k > 1:
                continue  # rank deficient block
            a[i, cols[i]] = v
        return a.astype(self.dtype)

    def __call__(self, shape):
        self.nblocks += 1
        if self.zero_every and self.nblocks % self.zero_every == 0:
            for _ in range(int(np.prod(shape, dtype=int))):
                self.value()
            return np.zeros(shape, dtype=self.dtype)
        if self.pattern == "illcond" and len(shape) == 2:
            # a block with prescribed, widely spread singular values 1, 1e-3, 1e-6, ... between two deterministic
            # orthonormal frames (non-integral data: judged through the tolerance observations)
            m, n = shape
            k = min(m, n)
            s0 = self.value()
            qa, _ = np.linalg.qr(np.sin(0.7 + s0 + np.outer(np.arange(1, m + 1), np.arange(1, k + 1)) * 1.37))
            qb, _ = np.linalg.qr(np.cos(0.3 + s0 + np.outer(np.arange(1, n + 1), np.arange(1, k + 1)) * 0.91))
            a = (qa[:, :k] * (10.0 ** (-3.0 * np.arange(k)))) @ qb[:, :k].T
            if "complex" in self.dtype:
                a = a * np.exp(0.4j)
            return np.asarray(a).astype(self.dtype)
        if self.pattern and len(shape) == 2:
            return self.monomial(shape, self.pattern)
        size = int(np.prod(shape, dtype=int))
        if self.floaty:
            # non-integral data: takes the observation route downstream of LAPACK
            re = np.array([np.sin(1.3 * self.value()) * 2.1 + 0.05 for _ in range(size)])
            a = re + (1j * np.cos(re * 3.7) if "complex" in self.dtype else 0)
            return np.asarray(a).reshape(shape).astype(self.dtype)
        re = np.array([self.value() for _ in range(size)], dtype="float64")
        if "complex" in self.dtype:
            im = np.array(
                [((i * 7 + self.k) % 5) - 2 for i in range(size)], dtype="float64"
            )
            a = re + 1j * im
        else:
            a = re
        return a.reshape(shape).astype(self.dtype)


def build_index(sym, ixd):
    import symmray as sr

    return sr.BlockIndex(
        {py_charge(sym, e["c"]): int(e["d"]) for e in ixd["cm"]}, dual=bool(ixd["dual"])
    )


def build(desc):
    import symmray as sr

    kind = desc["kind"]
    dtype = desc.get("dtype", "float64")
    fill = Counter(desc.get("fill", {}), dtype)
    if kind == "vector":
        # {"kind": "vector", "blocks": [{"c": [a,b], "d": n}], "sym": ...}
        sym = desc.get("sym", "U1")
        return sr.BlockVector(
            {py_charge(sym, e["c"]): fill((int(e["d"]),)) for e in desc["blocks"]}
        )
    if kind == "dense":
        return fill(tuple(int(d) for d in desc["shape"]))
    if kind == "scalar":
        return desc["v"][0] + (1j * desc["v"][1] if desc["v"][1] else 0)

    sym = desc["sym"]
    klass, need_sym = get_class(kind, desc.get("cls", "static"), sym)
    indices = tuple(build_index(sym, ixd) for ixd in desc["ix"])
    charge = tuple(desc["charge"])
    sectors = valid_sectors(sym, desc["ix"], charge)
    drop = set(desc.get("drop", ()))
    blocks = {}
    for k, s in enumerate(sectors):
        shape = tuple(
            next(int(e["d"]) for e in ixd["cm"] if tuple(e["c"]) == c)
            for c, ixd in zip(s, desc["ix"])
        )
        arr = fill(shape)  # always consume values, so dropping does not renumber
        layout = desc.get("layout") or os.environ.get("VERIF_LAYOUT", "")
        if "fortran" in layout and arr.ndim >= 2:
            arr = np.asfortranarray(arr)            # same values, column-major memory
        if "strided" in layout and arr.ndim >= 1 and arr.size:
            big = np.zeros(tuple(2 * d for d in arr.shape), dtype=arr.dtype)
            view = big[tuple(slice(None, None, 2) for _ in arr.shape)]
            view[...] = arr
            arr = view                              # a non-contiguous view into a larger buffer
        if "readonly" in layout:
            arr.setflags(write=False)               # any hidden write into an operand's buffer raises
        if k not in drop:
            blocks[tuple(py_charge(sym, c) for c in s)] = arr
    kwargs = {}
    if need_sym:
        kwargs["symmetry"] = sym
    if kind == "fermionic":
        lbl = desc.get("oddpos", 1)
        if desc.get("oddpos_dual"):
            lbl = sr.FermionicOperator(lbl, True)
        if parity(sym, charge) or "oddpos" in desc:
            kwargs["oddpos"] = lbl
    x = klass(indices=indices, charge=py_charge(sym, charge), blocks=blocks, **kwargs)
    if kind == "fermionic":
        stored = list(x.blocks)
        for k in desc.get("phases", ()):
            if k < len(stored):
                x.phases[stored[k]] = -1
    return x
