"""Execute a file of programs (ndjson) against /repo's working tree and write
the recorded events (ndjson).  Usage:

    python -m harness.run_programs PROGRAMS.ndjson EVENTS.ndjson
"""

import importlib
import json
import os
import sys


def main(argv):
    progs_path, out_path = argv[1], argv[2]
    repo = os.environ.get("VERIF_REPO", "/repo")
    if repo not in sys.path:
        sys.path.insert(0, repo)
    from .replay import Recorder

    stats = {"programs": 0, "events": 0, "out_of_range": 0}
    with open(progs_path) as f, open(out_path, "w") as out:
        rec = Recorder(out)
        for line in f:
            line = line.strip()
            if not line:
                continue
            prog = json.loads(line)
            special = prog.get("driver")
            if special:
                mod = importlib.import_module(f"harness.special.{special}")
                mod.run(prog, rec)
            else:
                rec.run(prog)
            stats["programs"] += 1
        stats["events"] = rec.events
        stats["out_of_range"] = rec.skipped_out_of_range
    print(json.dumps(stats))


if __name__ == "__main__":
    main(sys.argv)
