"""Replay spec-level programs against the real symmray in /repo's working tree
and record, after every call, the complete projected state of every register.

The harness judges nothing.  One event per call, logged at the return of the
public call (the linearization point of a sequential library), also on the
error path.

program = {"tid": n, "inputs": {reg: descriptor}, "steps": [step, ...], "cfg": {...}}
step    = {"op": name, "in": [reg, ...], "out": [reg, ...], "args": {...}, "entry": "method"|"symmray"|"autoray"}
event   = {"tid", "seq", "op", "args", "in", "out", "entry", "outcome", "exc", "regs": {reg: value}, "cfg"}
"""

import json
import operator
import warnings

import numpy as np

from . import descriptors
from .serialize import OutOfRange, snapshot


def _axes(a):
    if isinstance(a, int):
        return a
    return tuple(tuple(int(i) for i in side) for side in a)


def _scalar(k):
    re, im = k
    return complex(re, im) if im else float(re)


def _charge(x, c):
    return descriptors.py_charge(type(x.symmetry).__name__, c)


def construct(op, objs, a):
    """The constructors (C16).  objs[0] is a template array (blocks / indices / duals
    are taken from it) or, for from_dense, a dense ndarray."""
    import symmray as sr

    sym = a["sym"]
    klass, _ = descriptors.get_class(a["kind"], a["cls"], sym)
    kw = {}
    if a.get("sym_given"):
        kw["symmetry"] = sym if a.get("sym_as", "str") == "str" else sr.get_symmetry(sym)
    if a.get("charge_given"):
        kw["charge"] = descriptors.py_charge(sym, a["charge"])
    if a["kind"] == "fermionic" and "oddpos" in a:
        kw["oddpos"] = a["oddpos"]
    if op == "from_dense":
        d = objs[0]
        index_maps = [[descriptors.py_charge(sym, c) for c in lab] for lab in a["labels"]]
        if a.get("maps_as") == "dict":
            index_maps = [dict(enumerate(m)) for m in index_maps]
        return klass.from_dense(d, index_maps, tuple(a["duals"]), **kw)
    t = objs[0]
    if op == "from_blocks":
        return klass.from_blocks(dict(t.blocks), t.duals, **kw)
    if op == "construct":
        if a.get("with_blocks", True):
            kw["blocks"] = dict(t.blocks)
        return klass(indices=t.indices, **kw)
    if op == "from_fill_fn":
        it = iter(list(t.blocks.values()))

        def fill(shape):
            blk = next(it)
            assert tuple(blk.shape) == tuple(shape)
            return blk

        return klass.from_fill_fn(fill, t.indices, **kw)
    raise ValueError(op)


class HarnessError(Exception):
    """The harness itself failed (never recorded as an outcome of the library)."""


class FreshRaised(Exception):
    """The call raised in the fresh interpreter (an outcome, compared with the in-process outcome)."""


def call(op, objs, args, entry="method"):
    """Perform one public operation.  Returns a tuple of results."""
    import autoray as ar
    import symmray as sr

    a = dict(args)
    x = objs[0] if objs else None
    ip = {"inplace": True} if a.get("inplace") else {}

    def via(name, *rest, **kw):
        """Dispatch through one of the three entry points."""
        if entry == "method":
            return getattr(x, name)(*rest, **kw)
        if entry == "symmray":
            return getattr(sr, name)(x, *rest, **kw)
        if entry == "autoray":
            return ar.do(name, x, *rest, **kw)
        raise ValueError(entry)

    if op in ("from_blocks", "construct", "from_fill_fn", "from_dense"):
        return (construct(op, objs, a),)
    if op == "construct_shared":
        # two arrays built from ONE block dictionary (from_blocks and the class constructor): they must not share state
        # with each other or with the caller's dictionary
        t = objs[0]
        sym = a["sym"]
        klass, need = descriptors.get_class(a["kind"], a["cls"], sym)
        kw = {"symmetry": sym} if need else {}
        if a["kind"] == "fermionic":
            kw["oddpos"] = a.get("oddpos", 3)
        shared = dict(t.blocks)
        k1 = klass.from_blocks(shared, t.duals, charge=t.charge, **kw)
        k2 = klass(indices=t.indices, charge=t.charge, blocks=shared, **kw)
        return (k1, k2)
    if op == "builder":
        # the shipped local-operator builders (no operand)
        name, sym = a["name"], a["sym"]
        if name == "number_spinless":
            return (sr.fermi_number_operator_spinless_local_array(sym),)
        if name == "number_spinful":
            return (sr.fermi_number_operator_spinful_local_array(sym),)
        if name == "spin":
            return (sr.fermi_spin_operator_local_array(sym),)
        if name == "hubbard":
            return (sr.fermi_hubbard_local_array(sym, t=a.get("t", 1), U=a.get("U", 8), mu=a.get("mu", 0),
                                                 coordinations=tuple(a.get("z", [1, 1]))),)
        return (sr.fermi_hubbard_spinless_local_array(sym, t=a.get("t", 1), V=a.get("V", 8), mu=a.get("mu", 0),
                                                      coordinations=tuple(a.get("z", [1, 1]))),)
    if op == "fresh":
        # the call a["call"] = {"op", "args", "entry"} on copies of the operands, in a new interpreter
        import os
        import pickle
        import subprocess
        import sys

        c = a["call"]
        p = subprocess.run([sys.executable, "-m", "harness.fresh_call"], input=pickle.dumps((c["op"], objs, c.get("args", {}), c.get("entry", "method"))),
                           capture_output=True, cwd=os.path.dirname(os.path.dirname(os.path.abspath(__file__))),
                           env=dict(os.environ, **{k: str(v) for k, v in c.get("env", {}).items()}))
        lines = [l for l in p.stdout.decode().splitlines() if l.startswith("@@FRESH-RESULT@@")]
        if p.returncode != 0 or not lines:
            raise HarnessError("fresh interpreter failed: " + p.stderr.decode()[-800:])
        out = json.loads(lines[-1][len("@@FRESH-RESULT@@"):])
        if out["outcome"] != "ok":
            raise FreshRaised(out["exc"])
        return tuple(out["results"])
    if op == "set_cache":
        import symmray.abelian_core as _ac

        _ac._fuseinfo_cache_maxsize = int(a["size"])
        if "maxsectors" in a:
            _ac._fuseinfo_cache_maxsectors = int(a["maxsectors"])
        if a.get("clear"):
            _ac._fuseinfos.clear()
        return ()
    if op == "mode_ctx":
        # "prebuilt": the manager objects are created BEFORE anything is entered (and, with "preset", before the default is
        # changed by hand): what is restored on exit is the mode at ENTRY, whenever the manager was made
        original = sr.get_default_tensordot_mode()
        outer = inner = None
        if a.get("prebuilt"):
            outer = sr.default_tensordot_mode(a["mode"])
            if "nested" in a:
                inner = sr.default_tensordot_mode(a["nested"])
        if "preset" in a:
            sr.set_default_tensordot_mode(a["preset"])
        before = sr.get_default_tensordot_mode()
        inside = []
        try:
            try:
                with (outer if outer is not None else sr.default_tensordot_mode(a["mode"])):
                    inside.append(sr.get_default_tensordot_mode())
                    if "nested" in a:
                        try:
                            with (inner if inner is not None else sr.default_tensordot_mode(a["nested"])):
                                inside.append(sr.get_default_tensordot_mode())
                                if a.get("raise_inner"):
                                    raise RuntimeError("inner")
                        except RuntimeError:
                            pass
                        inside.append(sr.get_default_tensordot_mode())
                    if a.get("raise"):
                        raise RuntimeError("boom")
            except RuntimeError:
                pass
            after = sr.get_default_tensordot_mode()
        finally:
            sr.set_default_tensordot_mode(original)
        return ({"t": "modes", "before": str(before), "inside": [str(m) for m in inside], "after": str(after)},)
    if op == "set_default_mode":
        sr.set_default_tensordot_mode(None if a["mode"] == "none" else a["mode"])
        return ({"t": "str", "v": str(sr.get_default_tensordot_mode())},)
    if op == "observe":
        from .observe import observe

        return (observe(a["what"], objs, a),)
    if op == "copy":
        return (x.copy(),)
    if op == "transpose":
        axes = None if a.get("axes_none") else tuple(a["axes"])
        kw = dict(ip)
        if "phase" in a:
            kw["phase"] = a["phase"]
        if entry == "method":
            return (x.transpose(axes, **kw),)
        if entry == "symmray":
            return (sr.transpose(x, axes, **kw),)
        return (ar.do("transpose", x, axes, **kw),)
    if op == "T":
        return (x.T,)
    if op == "H":
        return (x.H,)
    if op == "conj":
        kw = dict(ip)
        for k in ("phase_permutation", "phase_dual"):
            if k in a:
                kw[k] = a[k]
        if entry == "method":
            return (x.conj(**kw),)
        if entry == "symmray":
            return (sr.conj(x, **kw),)
        return (ar.do("conj", x, **kw),)
    if op == "dagger":
        kw = dict(ip)
        if "phase_dual" in a:
            kw["phase_dual"] = a["phase_dual"]
        return (x.dagger(**kw),)
    if op == "squeeze":
        axis = None if a.get("axis_none") else (
            int(a["axis_int"]) if "axis_int" in a else tuple(a["axis"])
        )
        if entry == "method":
            return (x.squeeze(axis, **ip),)
        if entry == "symmray":
            return (sr.squeeze(x, axis),)
        return (ar.do("squeeze", x, axis),)
    if op == "expand_dims":
        kw = dict(ip)
        if "c" in a:
            kw["c"] = _charge(x, a["c"])
        if "dual" in a:
            kw["dual"] = a["dual"]
        if entry == "method":
            return (x.expand_dims(a["axis"], **kw),)
        if entry == "symmray":
            return (sr.expand_dims(x, a["axis"]),)
        return (ar.do("expand_dims", x, a["axis"]),)
    if op == "fuse":
        groups = tuple(tuple(g) for g in a["groups"])
        kw = dict(ip)
        if "mode" in a:
            kw["mode"] = a["mode"]
        if "expand_empty" in a:
            kw["expand_empty"] = a["expand_empty"]
        if entry == "method":
            return (x.fuse(*groups, **kw),)
        if entry == "symmray":
            return (sr.fuse(x, *groups),)
        return (ar.do("fuse", x, *groups),)
    if op == "unfuse":
        return (x.unfuse(a["axis"], **ip),)
    if op == "unfuse_all":
        return (x.unfuse_all(**ip),)
    if op == "reshape":
        shape = tuple(a["newshape"])
        if entry == "method":
            return (x.reshape(shape, **ip),)
        if entry == "symmray":
            return (sr.reshape(x, shape),)
        return (ar.do("reshape", x, shape),)
    if op == "tensordot":
        kw = {}
        if "mode" in a:
            kw["mode"] = None if a["mode"] == "default" else a["mode"]
        if a.get("preserve_array"):
            kw["preserve_array"] = True
        axes = int(a["naxes"]) if "naxes" in a else _axes(a["axes"])
        if entry == "autoray":
            return (ar.do("tensordot", objs[0], objs[1], axes, **kw),)
        return (sr.tensordot(objs[0], objs[1], axes, **kw),)
    if op == "matmul":
        return (objs[0] @ objs[1],)
    if op == "trace":
        return (via("trace"),)
    if op == "einsum":
        kw = {"preserve_array": True} if a.get("preserve_array") else {}
        if entry == "method":
            return (x.einsum(a["eq"], **kw),)
        if entry == "symmray":
            return (sr.einsum(a["eq"], x),)
        return (ar.do("einsum", a["eq"], x),)
    if op == "multiply_diagonal":
        if entry == "method":
            return (x.multiply_diagonal(objs[1], a["axis"], **ip),)
        if entry == "symmray":
            return (sr.multiply_diagonal(x, objs[1], a["axis"]),)
        return (ar.do("multiply_diagonal", x, objs[1], a["axis"]),)
    if op == "align_axes":
        axes = _axes(a["axes"])
        if entry == "method":
            return tuple(x.align_axes(objs[1], axes))
        if entry == "symmray":
            return tuple(sr.align_axes(x, objs[1], axes))
        return tuple(ar.do("align_axes", x, objs[1], axes))
    if op in ("add", "sub", "mul", "truediv", "pow"):
        return (getattr(operator, op)(objs[0], objs[1]),)
    if op in ("iadd", "isub", "imul", "itruediv", "ipow"):
        return (getattr(operator, op)(objs[0], objs[1]),)
    if op == "smul":
        return (x * _scalar(a["k"]),)
    if op == "scale_pow2":
        # exact in binary floating point: used to run operations on tiny / huge numbers and scale back
        return (x * (2.0 ** int(a["e"])),)
    if op == "rsmul":
        return (_scalar(a["k"]) * x,)
    if op == "sdiv":
        return (x / _scalar(a["k"]),)
    if op == "ismul":
        x *= _scalar(a["k"])
        return (x,)
    if op == "isdiv":
        x /= _scalar(a["k"])
        return (x,)
    if op == "sadd":
        return (x + _scalar(a["k"]),)
    if op == "rsadd":
        return (_scalar(a["k"]) + x,)
    if op == "ssub":
        return (x - _scalar(a["k"]),)
    if op == "rssub":
        return (_scalar(a["k"]) - x,)
    if op == "rsdiv":
        return (_scalar(a["k"]) / x,)
    if op == "spow":
        return (x ** int(a["k"][0]),)
    if op == "neg":
        return (-x,)
    if op in ("sum", "max", "min", "all", "any", "abs", "sqrt", "isfinite",
              "log", "log2", "log10"):
        return (via(op),)
    if op == "clip":
        return (via("clip", a["a_min"], a["a_max"]),)
    if op == "norm_sq":
        if entry == "method":
            return (x.norm() ** 2,)
        if entry == "symmray":
            return (sr.linalg.norm(x) ** 2,)
        return (ar.do("linalg.norm", x) ** 2,)
    if op == "norm":
        if entry == "method":
            return (x.norm(),)
        if entry == "symmray":
            return (sr.linalg.norm(x),)
        return (ar.do("linalg.norm", x),)
    if op == "to_dense":
        return (x.to_dense(),)
    if op == "allclose":
        return (bool(x.allclose(objs[1])),)
    if op == "item":
        return (x.item(),)
    if op == "float":
        return (complex(x) if a.get("complex") else float(x),)
    if op == "phase_flip":
        return (x.phase_flip(*a["axs"], **ip),)
    if op == "phase_transpose":
        axes = None if a.get("axes_none") else tuple(a["axes"])
        return (x.phase_transpose(axes, **ip),)
    if op == "phase_global":
        return (x.phase_global(**ip),)
    if op == "phase_sector":
        return (x.phase_sector(tuple(_charge(x, c) for c in a["sector"]), **ip),)
    if op == "phase_sync":
        return (x.phase_sync(**ip),)
    if op == "sync_charges":
        return (x.sync_charges(**ip),)
    if op == "fill_missing_blocks":
        x.fill_missing_blocks()
        return (x,)
    if op == "drop_missing_blocks":
        x.drop_missing_blocks()
        return (x,)
    if op == "qr":
        kw = {"stabilized": True} if a.get("stabilized") else {}
        if entry == "autoray":
            return tuple(ar.do("linalg.qr", x, **kw))
        return tuple(sr.linalg.qr(x, **kw))
    if op == "svd":
        if entry == "autoray":
            return tuple(ar.do("linalg.svd", x))
        return tuple(sr.linalg.svd(x))
    if op == "eigh":
        if entry == "autoray":
            return tuple(ar.do("linalg.eigh", x))
        return tuple(sr.linalg.eigh(x))
    if op == "solve":
        if entry == "autoray":
            return (ar.do("linalg.solve", objs[0], objs[1]),)
        return (sr.linalg.solve(objs[0], objs[1]),)
    if op == "svd_truncated":
        kw = {}
        if "cutoff" in a:
            num, den = a["cutoff"]
            kw["cutoff"] = num / den
        for k in ("cutoff_mode", "max_bond"):
            if k in a:
                kw[k] = a[k]
        if "absorb" in a:
            kw["absorb"] = None if a["absorb"] == "none" else a["absorb"]
        return tuple(sr.linalg.svd_truncated(x, **kw))
    raise ValueError(f"unknown op {op}")


def bits_equal(a, b):
    """Observation: are two results bit-for-bit the same numbers?"""
    import symmray as sr

    if isinstance(a, (sr.AbelianArray, sr.BlockVector)) and isinstance(b, (sr.AbelianArray, sr.BlockVector)):
        if list(a.blocks) != list(b.blocks):
            return False
        return all(np.array_equal(np.asarray(a.blocks[k]), np.asarray(b.blocks[k]), equal_nan=True)
                   and np.asarray(a.blocks[k]).dtype == np.asarray(b.blocks[k]).dtype for k in a.blocks)
    try:
        return bool(np.array_equal(np.asarray(a), np.asarray(b), equal_nan=True))
    except Exception:
        return False


class Session:
    """One program being executed: registers, buffered events."""

    def __init__(self, rec, tid, regs, cfg=None, grp=None, init_args=None):
        self.rec, self.tid, self.regs, self.cfg = rec, tid, regs, cfg or {}
        self.buf = []
        self.seq = 0
        self.dead = False
        try:
            self._emit("init", init_args or {"x": 0}, [], sorted(regs), "method", "ok", "")
        except OutOfRange:
            self.dead = True

    def _emit(self, op, args, ins, outs, entry, outcome, exc):
        self.buf.append(
            {"tid": self.tid, "seq": self.seq, "op": op, "args": args or {"x": 0}, "in": list(ins),
             "out": list(outs), "entry": entry, "outcome": outcome, "exc": exc, "cfg": self.cfg,
             "regs": {k: snapshot(v) for k, v in self.regs.items()}})
        self.seq += 1

    def do(self, st):
        """Execute one step; returns 'ok', 'raise', 'skip' or 'dead'."""
        if self.dead:
            return "dead"
        regs = self.regs
        args = dict(st.get("args", {}))
        if st["op"] == "rel" and args.get("how") == "all_or_none":
            args["present"] = [r in regs for r in args["names"]]
            self._emit("rel", args, [], [], "method", "ok", "")
            return "ok"
        if any(r not in regs for r in st["in"]):
            return "skip"  # an earlier call raised: its dependants are not run
        if st["op"] == "rel" and args.get("how") == "bits":
            args["bits_equal"] = bits_equal(regs[st["in"][0]], regs[st["in"][1]])
        try:
            if st["op"] == "rel":
                # relational pseudo-event: nothing is executed, the spec compares registers
                self._emit("rel", args, st["in"], [], "method", "ok", "")
                return "ok"
            objs = [regs[r] for r in st["in"]]
            outcome, exc = "ok", ""
            try:
                with warnings.catch_warnings():
                    warnings.simplefilter("ignore")
                    res = call(st["op"], objs, args, st.get("entry", "method"))
            except (OutOfRange, HarnessError):
                raise
            except BaseException as e:  # the error path is an outcome, not a crash
                if isinstance(e, (KeyboardInterrupt, SystemExit)):
                    raise
                outcome, exc, res = "raise", type(e).__name__, ()
            if outcome == "ok":
                for r, v in zip(st["out"], res):
                    if args.get("inplace") and st["in"] and r == st["in"][0]:
                        # an in-place call is judged by what the OPERAND holds afterwards, not by what is returned
                        continue
                    regs[r] = v
            self._emit(st["op"], args, st["in"], st["out"] if outcome == "ok" else [],
                       st.get("entry", "method"), outcome, exc)
            return outcome
        except OutOfRange:
            self.dead = True
            return "dead"

    def close(self):
        if self.dead:
            self.rec.skipped_out_of_range += 1
            return False
        for ev in self.buf:
            self.rec.emit(ev)
        return True


class Recorder:
    """Executes programs and writes events."""

    def __init__(self, sink):
        self.sink = sink
        self.events = 0
        self.skipped_out_of_range = 0

    def emit(self, ev):
        self.sink.write(json.dumps(ev, separators=(",", ":")))
        self.sink.write("\n")
        self.events += 1

    def run(self, prog):
        import symmray.abelian_core as _ac

        cfg = prog.get("cfg", {})
        saved = (_ac._fuseinfo_cache_maxsize, _ac._fuseinfo_cache_maxsectors)
        saved_mode = _ac._DEFAULT_TENSORDOT_MODE
        if "cache" in cfg:
            _ac._fuseinfo_cache_maxsize = int(cfg["cache"])
        if "maxsectors" in cfg:
            _ac._fuseinfo_cache_maxsectors = int(cfg["maxsectors"])
        if cfg.get("cache_clear"):
            _ac._fuseinfos.clear()
        try:
            regs = {name: descriptors.build(desc) for name, desc in prog["inputs"].items()}
            init_args = None
            if prog.get("model_descs"):
                # programs exported by TLC from Machine.tla: log the descriptors so that the spec can
                # rebuild the very arrays the model started from
                init_args = {"descs": {k: ({"kind": "vector", "blocks": d["blocks"], "start": d["fill"]["start"]}
                                           if d["kind"] == "vector" else {"sym": d["sym"], "kind": d["kind"], "ix": d["ix"], "charge": d["charge"],
                                           "drop": d["drop"], "phases": d.get("phases", []), "start": d["fill"]["start"],
                                           "oddpos": d.get("oddpos", 1)}) for k, d in prog["inputs"].items()}}
            ses = Session(self, prog["tid"], regs, cfg, init_args=init_args)
            for st in prog["steps"]:
                ses.do(st)
            return ses.close()
        finally:
            _ac._fuseinfo_cache_maxsize, _ac._fuseinfo_cache_maxsectors = saved
            _ac._DEFAULT_TENSORDOT_MODE = saved_mode
