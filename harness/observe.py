"""Tolerance-based OBSERVATIONS of LAPACK output (C11/C12/C13 on float data).

The numeric kernels cannot be evaluated inside TLA+; the harness records what
it observes as booleans and the spec requires every one of them to be TRUE.
"""
import numpy as np

TOL = 1e-9


def _close(a, b, scale=1.0):
    return bool(np.max(np.abs(np.asarray(a) - np.asarray(b)), initial=0.0) <= TOL * (1.0 + scale))


def _norm(x):
    return float(np.sqrt(sum(float(np.sum(np.abs(b) ** 2)) for b in x.blocks.values()))) if x.blocks else 0.0


def _tol_of(x):
    dt = str(x.dtype)
    return 1e-4 if dt in ("float32", "complex64") else TOL


def dense_close(a, b, tol, scale):
    """Are two symmetric arrays equal as tensors (missing blocks are zero)?  Compared block
    by block on the union of their sectors, pending fermionic signs applied."""
    if getattr(a, "fermionic", False):
        a, b = a.phase_sync(), b.phase_sync()
    if a.ndim != b.ndim:
        return False
    for s in set(a.blocks) | set(b.blocks):
        ba, bb = a.blocks.get(s), b.blocks.get(s)
        if ba is None:
            ba = np.zeros_like(bb)
        if bb is None:
            bb = np.zeros_like(ba)
        if np.shape(ba) != np.shape(bb):
            return False
        if np.max(np.abs(np.asarray(ba) - np.asarray(bb)), initial=0.0) > tol * (1.0 + scale):
            return False
    return True


def obs_qr(x, q, r, stabilized=False):
    tol = _tol_of(x)
    sc = _norm(x)
    o = {"t": "obs"}
    o["q_orthonormal"] = all(
        np.max(np.abs(b.conj().T @ b - np.eye(b.shape[1])), initial=0.0) <= tol * 10 for b in q.blocks.values())
    o["r_upper"] = all(np.max(np.abs(np.tril(b, -1)), initial=0.0) <= tol * (1 + sc) for b in r.blocks.values())
    o["r_diag_nonneg"] = (not stabilized) or all(
        np.all(np.abs(np.imag(np.diag(b))) <= tol * (1 + sc)) and np.all(np.real(np.diag(b)) >= -tol * (1 + sc))
        for b in r.blocks.values())
    o["reconstructs"] = dense_close(q @ r, x, tol * 10, sc) if x.blocks else True
    return o


def obs_svd(x, u, s, vh):
    import symmray as sr

    tol = _tol_of(x)
    sc = _norm(x)
    o = {"t": "obs"}
    o["u_orthonormal"] = all(
        np.max(np.abs(b.conj().T @ b - np.eye(b.shape[1])), initial=0.0) <= tol * 10 for b in u.blocks.values())
    o["vh_orthonormal_rows"] = all(
        np.max(np.abs(b @ b.conj().T - np.eye(b.shape[0])), initial=0.0) <= tol * 10 for b in vh.blocks.values())
    o["s_nonneg"] = all(np.all(np.asarray(b) >= 0) for b in s.blocks.values())
    o["s_nonincreasing"] = all(np.all(np.diff(np.asarray(b)) <= tol * (1 + sc)) for b in s.blocks.values())
    if x.blocks:
        o["reconstructs_right"] = dense_close(u @ sr.multiply_diagonal(vh, s, 0), x, tol * 10, sc)
        o["reconstructs_left"] = dense_close(sr.multiply_diagonal(u, s, 1) @ vh, x, tol * 10, sc)
    else:
        o["reconstructs_right"] = o["reconstructs_left"] = True
    return o


def obs_eigh(a, w, v):
    import symmray as sr

    tol = _tol_of(a)
    sc = _norm(a)
    o = {"t": "obs"}
    o["v_unitary"] = all(
        np.max(np.abs(b.conj().T @ b - np.eye(b.shape[1])), initial=0.0) <= tol * 10 for b in v.blocks.values())
    o["w_real"] = all(not np.iscomplexobj(b) for b in w.blocks.values())
    o["reconstructs"] = dense_close(sr.multiply_diagonal(v, w, 1) @ v.H, a, tol * 10, sc) if a.blocks else True
    return o


def obs_solve(a, b, x):
    tol = _tol_of(a)
    sc = _norm(b) + _norm(a)
    return {"t": "obs", "satisfies": dense_close(a @ x, b, tol * 100, sc) if x.blocks else True}


def _multiset_close(a, b, tol):
    a, b = np.sort(np.asarray(a, dtype=float)), np.sort(np.asarray(b, dtype=float))
    return a.shape == b.shape and bool(np.max(np.abs(a - b), initial=0.0) <= tol)


def obs_spectrum(x, s):
    """Singular values vs numpy on the dense form (non-zero ones)."""
    if not x.blocks:
        return {"t": "obs", "nonzero_svals_equal_dense": not s.blocks, "norm_equals_dense": True}
    tol = _tol_of(x) * 10
    sc = _norm(x)
    d = np.asarray(x.to_dense())
    ref = np.linalg.svd(d, compute_uv=False)
    got = np.concatenate([np.asarray(b, dtype=float) for b in s.blocks.values()]) if s.blocks else np.zeros(0)
    thr = 100 * tol * (1 + sc)
    o = {"t": "obs", "nonzero_svals_equal_dense": _multiset_close(got[got > thr], ref[ref > thr], thr),
         "norm_equals_dense": abs(_norm(x) - float(np.linalg.norm(d))) <= tol * (1 + sc)}
    if str(x.dtype) in ("float64", "complex128"):
        # double precision: LAPACK returns every singular value with an ABSOLUTE error of a few ulps of the largest
        # one, whether the blocks or the dense form are decomposed - small values included
        smax = float(ref[0]) if ref.size else 0.0
        thr2, tol2 = 1e-10 * (1 + smax), 1e-12 * (1 + smax)
        o["svals_equal_dense_tight"] = _multiset_close(got[got > thr2], ref[ref > thr2], tol2)
    return o


def obs_eigvals(a, w):
    """Eigenvalues vs numpy eigvalsh of the dense form restricted to the stored sectors."""
    if not a.blocks:
        return {"t": "obs", "eigvals_equal_dense": not w.blocks}
    tol = _tol_of(a) * 10
    sc = _norm(a)
    got = np.concatenate([np.asarray(b, dtype=float) for b in w.blocks.values()]) if w.blocks else np.zeros(0)
    # dense form on the stored sectors: rows / columns of the charges that have a block
    d = np.asarray(a.to_dense())
    keep = []
    off = 0
    stored = {s[0] for s in a.blocks}
    for c in sorted(a.indices[0].chargemap):
        n = a.indices[0].chargemap[c]
        if c in stored:
            keep += list(range(off, off + n))
        off += n
    sub = d[np.ix_(keep, keep)]
    ref = np.linalg.eigvalsh(sub) if sub.size else np.zeros(0)
    return {"t": "obs", "eigvals_equal_dense": _multiset_close(got, ref, tol * (1 + sc) * 100)}


def _dense_vec(v, ix):
    """Dense form of a rank-1 array laid out on the charge table of index ix."""
    v = v.phase_sync() if getattr(v, "fermionic", False) else v
    parts = []
    for c in sorted(ix.chargemap):
        blk = v.blocks.get((c,))
        parts.append(np.zeros(ix.chargemap[c]) if blk is None else np.asarray(blk))
    return np.concatenate(parts) if parts else np.zeros(0)


def obs_solution(a, b, x):
    if not a.blocks:
        return {"t": "obs", "solution_equals_dense": True, "dense_singular": True}
    tol = _tol_of(a) * 1000
    da = np.asarray(a.to_dense())
    db = _dense_vec(b, a.indices[0])
    try:
        ref = np.linalg.solve(da, db)
    except np.linalg.LinAlgError:
        return {"t": "obs", "solution_equals_dense": True, "dense_singular": True}
    dx = _dense_vec(x, a.indices[1])
    return {"t": "obs", "solution_equals_dense": bool(np.max(np.abs(dx - ref), initial=0.0)
                                                      <= tol * (1 + np.max(np.abs(ref), initial=0.0))),
            "dense_singular": False}


def _wrap(o):
    info = {k: v for k, v in o.items() if k in ("dense_singular",)}
    req = {k: bool(v) for k, v in o.items() if k not in ("t", "dense_singular")}
    return {"t": "obs", "req": req, "info": info or {"x": 0}}


def observe(what, objs, args):
    return _wrap(_observe(what, objs, args))


def _observe(what, objs, args):
    if what == "qr":
        return obs_qr(*objs, stabilized=bool(args.get("stabilized")))
    if what == "svd":
        return obs_svd(*objs)
    if what == "eigh":
        return obs_eigh(*objs)
    if what == "solve":
        return obs_solve(*objs)
    if what == "spectrum":
        return obs_spectrum(*objs)
    if what == "eigvals":
        return obs_eigvals(*objs)
    if what == "solution":
        return obs_solution(*objs)
    raise ValueError(what)
