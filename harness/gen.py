"""Generation of spec-level descriptors (inputs) and call arguments.

Everything is driven by an explicit ``random.Random`` so that VERIF_SEED
reproduces a run; the systematic enumerators are deterministic."""

import itertools
import random

from . import descriptors as D

SYMS = ("Z2", "U1", "Z2Z2", "U1U1", "Z4")
STATIC_SYMS = ("Z2", "U1", "Z2Z2", "U1U1")
DTYPES = ("float64", "float32", "complex128", "complex64")

CHARGE_POOL = {
    "Z2": [(0, 0), (1, 0)],
    "Z4": [(0, 0), (1, 0), (2, 0), (3, 0)],
    "U1": [(-1, 0), (0, 0), (1, 0), (2, 0)],
    "Z2Z2": [(0, 0), (0, 1), (1, 0), (1, 1)],
    "U1U1": [(0, 0), (0, 1), (1, 0), (1, 1), (-1, 0), (0, -1), (1, -1)],
}


def rand_index(rng, sym, maxc=3, maxd=2, dual=None, unit=False, minc=1):
    pool = CHARGE_POOL[sym]
    if unit:
        c = rng.choice(pool) if rng.random() < 0.5 else (0, 0)
        return {"dual": rng.random() < 0.5 if dual is None else dual, "cm": [{"c": list(c), "d": 1}]}
    n = rng.randint(min(minc, len(pool), maxc), min(maxc, len(pool)))
    cs = sorted(rng.sample(pool, n))
    return {
        "dual": (rng.random() < 0.5) if dual is None else dual,
        "cm": [{"c": list(c), "d": rng.randint(1, maxd)} for c in cs],
    }


def conj_index(ix):
    return {"dual": not ix["dual"], "cm": [dict(e) for e in ix["cm"]]}


def possible_charges(sym, ixs):
    """Total charges for which at least one sector exists."""
    out = set()
    tables = [[tuple(e["c"]) for e in ix["cm"]] for ix in ixs]
    for s in itertools.product(*tables):
        tot = (0, 0)
        for c, ix in zip(s, ixs):
            tot = D.combine(sym, tot, D.neg(sym, c) if ix["dual"] else c)
        out.add(tot)
    return sorted(out)


def rand_array(rng, sym, rank, kind="abelian", ixs=None, charge=None, parity=None,
               sparse=0.5, dtype="float64", cls=None, start=None, maxc=3, maxd=2, oddpos=None,
               phases=0.0, unit_prob=0.0, minc=1):
    if ixs is None:
        ixs = [rand_index(rng, sym, maxc, maxd, unit=rng.random() < unit_prob, minc=minc) for _ in range(rank)]
    if charge is None:
        cands = possible_charges(sym, ixs)
        if parity is not None:
            cands2 = [c for c in cands if D.parity(sym, c) == parity]
            cands = cands2 or cands
        charge = rng.choice(cands)
    nsec = len(D.valid_sectors(sym, ixs, tuple(charge)))
    drop = []
    if nsec and rng.random() < sparse:
        k = rng.randint(1, max(1, nsec // 2)) if nsec > 1 else rng.randint(0, 1)
        drop = sorted(rng.sample(range(nsec), min(k, nsec)))
    desc = {
        "kind": kind, "sym": sym, "charge": list(charge), "ix": ixs, "drop": drop, "dtype": dtype,
        "cls": cls or ("dynamic" if sym == "Z4" else rng.choice(["static", "static", "dynamic"])),
        "fill": {"start": start if start is not None else rng.randint(1, 9), "step": 1, "alt": True},
    }
    # memory layout of the blocks handed to the library: C order / Fortran order / a strided view into a larger buffer,
    # writable or read-only (a hidden write into an operand then raises instead of going unnoticed).  Drawn from a
    # generator of its own so that the rest of the program does not depend on it.
    lrng = random.Random(rng.random())
    desc["layout"] = lrng.choice(["", "", "fortran", "strided", "readonly", "readonly,strided", "readonly,fortran"])
    if kind == "fermionic":
        desc["oddpos"] = oddpos if oddpos is not None else rng.randint(1, 9)
        if phases and nsec:
            stored = nsec - len(drop)
            desc["phases"] = sorted(k for k in range(stored) if rng.random() < phases)
    return desc


def rand_partner(rng, a, axes_a, nfree, kind=None, charge=None, parity=None, **kw):
    """An array whose first len(axes_a) indices are the conjugates of a's axes
    ``axes_a`` (in that order) followed by ``nfree`` fresh indices; the caller
    may permute."""
    sym = a["sym"]
    ixs = [conj_index(a["ix"][i]) for i in axes_a]
    ixs += [rand_index(rng, sym, kw.get("maxc", 3), kw.get("maxd", 2)) for _ in range(nfree)]
    return rand_array(rng, sym, len(ixs), kind or a["kind"], ixs=ixs, charge=charge, parity=parity,
                      dtype=a.get("dtype", "float64"), cls=a.get("cls"),
                      **{k: v for k, v in kw.items() if k not in ("maxc", "maxd")})


def permute_desc(desc, perm):
    """Permute the indices of a descriptor (values are re-filled; fine for inputs)."""
    d = dict(desc)
    d["ix"] = [desc["ix"][p] for p in perm]
    # sector order changes with the permutation: re-draw the dropped set size-preserving
    return d


def rng_for(seed, *salt):
    return random.Random(f"{seed}-" + "-".join(map(str, salt)))


class Tids:
    def __init__(self, base=0):
        self.n = base

    def __call__(self):
        self.n += 1
        return self.n
