----------------------------- MODULE MC_Oddpos -----------------------------
(***************************************************************************)
(* C04 (labels): the library's way of combining odd-position labels         *)
(* (resolve_combined_oddpos: phased neighbour swaps with back-stepping and   *)
(* annihilation of conjugate neighbours) against the closed-form word        *)
(* semantics (ResolveSign: inversion parity of the reordering that brings    *)
(* conjugate pairs together, one -1 per ket-bra pair), for EVERY word over a *)
(* small label alphabet.  One TLC state per (left word, right word).         *)
(***************************************************************************)
EXTENDS FermiImpl

CONSTANTS Labels, MaxLen

Ops == [label : Labels, dual : BOOLEAN]
Words == UNION {[1..n -> Ops] : n \in 0..MaxLen}
\* a tensor's own label word is sorted and free of conjugate pairs (it is the result of an earlier resolution)
Normal(w) == /\ \A i \in 1..(Len(w) - 1) : OpLT(w[i], w[i + 1])
             /\ \A i, j \in 1..Len(w) : i # j => w[i].label # w[j].label

VARIABLES l, r
vars == <<l, r>>
Init == l \in {w \in Words : Normal(w)} /\ r \in {w \in Words : Normal(w)} /\ LabelsOK(l \o r)
Next == UNCHANGED vars
Spec == Init /\ [][Next]_vars

Res == ResolveLoop(l \o r, 1, 1)
\* the loop ends with a sorted word without conjugate NEIGHBOURS ...
ResultIsSorted ==
  /\ \A i \in 1..(Len(Res.L) - 1) : OpLT(Res.L[i], Res.L[i + 1])
  /\ LabelsOK(Res.L)
\* ... that denotes the same thing as the input word: same remaining labels once every conjugate pair is
\* evaluated, and the same overall sign.  (Conjugate labels that never become neighbours stay in the word:
\* e.g. <<2+>> with <<1-, 2->> ends as <<2+, 1-, 2->>.)
SameDenotation ==
  /\ SameLabelSet(Remaining(Res.L), Remaining(l \o r))
  /\ ResolveSign(l \o r) = Res.phase * ResolveSign(Res.L) * ReorderSign(Remaining(l \o r), Remaining(Res.L))
\* NEGATIVE CONTROLS (checks/c04.py expects TLC to report them): a resolution that forgot the phase it accumulated, and
\* the claim that no pair of words ever needs a sign
ControlPhaseForgotten ==
  ResolveSign(l \o r) = ResolveSign(Res.L) * ReorderSign(Remaining(l \o r), Remaining(Res.L))
ControlNeverNegative == Res.phase = 1
\* words without conjugate pairs (C04's domain: distinct labels) are simply sorted
DistinctLabelsSorted ==
  (LabelPairs(l \o r) = {}) => SameLabelSet(Res.L, l \o r)
=============================================================================
