------------------------------ MODULE MC_Trunc ------------------------------
(***************************************************************************)
(* C13 on the model: the library-shaped truncation logic of svd_truncated    *)
(* (one globally sorted array, cumulative sums, count_nonzero, an absolute   *)
(* threshold read off the sorted array, the bond limit folded into the       *)
(* threshold, per-charge counts) against the abstract rule KeptSlots          *)
(* ("the largest values permitted by the cutoff rule, intersected with the   *)
(* bond limit"), and calc_sub_max_bonds against its contract - for every     *)
(* spectrum of pairwise distinct values 1..V spread over up to three charges, *)
(* every mode, a ladder of cutoffs and every bond limit.                      *)
(***************************************************************************)
EXTENDS LocalOps

CONSTANTS V, Cutoffs, MaxBonds, Guarded   \* Guarded: the repaired code (n = 0 keeps nothing); FALSE: sall[-0] wraps

VARIABLES assign, mode, cut, mb
vars == <<assign, mode, cut, mb>>

Charges3 == 1..3
\* assign[v] = charge holding the singular value v (0 = value not present)
Init == /\ assign \in {f \in [1..V -> 0..3] : \A c \in Charges3 : Cardinality({v \in 1..V : f[v] = c}) <= 3}
        /\ mode \in 1..6 /\ cut \in Cutoffs /\ mb \in MaxBonds
Next == UNCHANGED vars
Spec == Init /\ [][Next]_vars

Present == {v \in 1..V : assign[v] # 0}
Blocks == {c \in Charges3 : \E v \in Present : assign[v] = c}
SlotsM == {<<<<assign[v], 0>>, v>> : v \in Present}
Sall == SetToSortSeq(Present, <)                       \* ascending, as np.sort
Pw(v) == IF mode \in {3, 4} THEN v * v ELSE v
Cum(i) == SumSeqInt([j \in 1..i |-> Pw(Sall[j])])

\* threshold as a rational <<num, den>>, or "inf"
ImplThreshold ==
  LET n == Len(Sall)
      num == cut[1]
      den == cut[2]
      base ==
        CASE mode = 1 -> <<num, den>>
          [] mode = 2 -> <<Sall[n] * num, den>>
          [] OTHER ->
             LET cond(i) == IF mode \in {4, 6} THEN Cum(i) * den >= num * Cum(n) ELSE Cum(i) * den >= num
                 k == Cardinality({i \in 1..n : cond(i)})
             IN IF k = 0 THEN (IF Guarded THEN <<1, 0>> ELSE <<Sall[1], 1>>)   \* <<1,0>> stands for +infinity
                ELSE <<Sall[n - k + 1], 1>>
      limit == IF mb > 0 /\ mb < n THEN <<Sall[n - mb + 1], 1>> ELSE <<0, 1>>
      gt(a, b) == IF a[2] = 0 THEN b[2] # 0 ELSE IF b[2] = 0 THEN FALSE ELSE a[1] * b[2] > b[1] * a[2]
  IN IF gt(limit, base) THEN limit ELSE base
GE(v, t) == t[2] # 0 /\ v * t[2] >= t[1]
ImplCounts == [c \in Blocks |-> Cardinality({v \in Present : assign[v] = c /\ GE(v, ImplThreshold)})]

AbsKept == KeptSlots(SlotsM, cut[1], cut[2], mode, mb)
AbsCounts == [c \in Blocks |-> Cardinality({k \in AbsKept : k[1] = <<c, 0>>})]

\* the code keeps exactly what the rule prescribes
ImplKeepsWhatTheRuleSays == (Present # {}) => ImplCounts = AbsCounts
\* and what it keeps is an upper set: every kept value >= every discarded one
KeptAboveDiscarded ==
  (Present # {}) => \A v, w \in Present : (GE(v, ImplThreshold) /\ ~GE(w, ImplThreshold)) => v > w

\* ---- no cutoff: calc_sub_max_bonds (linalg.py:215-236) ----
Sizes == [i \in 1..Cardinality(Blocks) |-> Cardinality({v \in Present : assign[v] = SetToSortSeq(Blocks, <)[i]})]
SubMaxBonds(sizes, maxbond) ==
  LET tot == SumSeqInt(sizes) IN
  IF maxbond < 0 \/ maxbond >= tot THEN sizes
  ELSE LET sub == [i \in 1..Len(sizes) |-> (maxbond * sizes[i]) \div tot]
           rem == maxbond - SumSeqInt(sub)
           \* stable argsort of sub: position of i among the indices ordered by (sub, index)
           rank(i) == Cardinality({j \in 1..Len(sub) : sub[j] < sub[i] \/ (sub[j] = sub[i] /\ j < i)})
       IN [i \in 1..Len(sizes) |-> IF rank(i) < rem THEN sub[i] + 1 ELSE sub[i]]
SplitIsExact ==
  (Present # {} /\ mb # 0) =>
    LET s == SubMaxBonds(Sizes, mb)
        tot == SumSeqInt(Sizes)
    IN /\ SumSeqInt(s) = (IF mb < 0 \/ mb >= tot THEN tot ELSE mb)
       /\ \A i \in 1..Len(s) : s[i] >= 0 /\ s[i] <= Sizes[i]
=============================================================================
