------------------------------- MODULE Trace -------------------------------
(***************************************************************************)
(* Trace validation: every event recorded from the real symmray is          *)
(* consumed by one step of this spec.  The register file `regs` is the      *)
(* spec state; the pre-state of an event is the post-state of the previous  *)
(* one (the harness logs only post-states), so a register that changes      *)
(* behind the back of an operation is seen by the frame clause.             *)
(*                                                                          *)
(* For every event a verdict line is printed:                               *)
(*    <<"V", tid, seq, op, {failed L1 clause names}, {L2 drift names}>>     *)
(* L1 = the listed properties (Props/FermiAbs/... through the denotational   *)
(* layer).  L2 = agreement with the implementation-shaped operators.         *)
(***************************************************************************)
EXTENDS Clauses, Json, IOUtils

VARIABLES l, regs

Events == ndJsonDeserialize(IOEnv.TRACE_FILE)

TInit == l = 1 /\ regs = [none |-> 0]

TNext ==
  /\ l <= Len(Events)
  /\ LET ev == Events[l]
         pre == IF ev.seq = 0 THEN ev.regs ELSE regs
         v == <<"V", ev.tid, ev.seq, ev.op, EventFails(ev, pre), EventDrift(ev, pre)>>
     IN /\ PrintT(v)
        /\ regs' = ev.regs
  /\ l' = l + 1

TSpec == TInit /\ [][TNext]_<<l, regs>>

\* every line was consumed (the diameter counts the initial state as well)
TraceAccepted == TLCGet("stats").diameter - 1 = Len(Events)

=============================================================================
