SPECIFICATION Spec
CONSTANTS
  Threads = {1, 2}
  Prog <- ProgA
  MaxSize = 1
  PopGuarded = TRUE
INVARIANT NoUncaughtError
INVARIANT ReturnsOwnPlan
INVARIANT SizeBoundRestored
INVARIANT NoDuplicateKeys
PROPERTY Terminates
CHECK_DEADLOCK FALSE
