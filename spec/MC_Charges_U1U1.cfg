SPECIFICATION Spec
CONSTANTS
  Sym = "U1U1"
  BoxK = 3
  MaxRank = 2
INVARIANT SectorsExact
CHECK_DEADLOCK FALSE
