------------------------------- MODULE Props -------------------------------
(***************************************************************************)
(* The listed properties as predicates over (pre-state, operation,          *)
(* arguments, post-state), stated through the denotational layer only.      *)
(* The same operators are used                                              *)
(*   - as action properties of the implementation-shaped models (MC modules),*)
(*   - as the L1 clauses of trace validation (Trace.tla).                   *)
(* Each operator returns the SET OF NAMES of the clauses that fail.         *)
(***************************************************************************)
EXTENDS Tensors

F(cond, name) == IF cond THEN {} ELSE {name}

\* denotation of an array: elements, plain index tables, charge
Den(x) == [E |-> Elem(x), ix |-> [i \in 1..Len(x.ix) |-> PlainIndex(x.ix[i])], charge |-> x.charge]
CmSet(ix) == {ix.cm[i] : i \in 1..Len(ix.cm)}
\* result may have dropped charges that no stored block uses
SubDen(d, exp) ==
  /\ d.E = exp.E /\ d.charge = exp.charge /\ Len(d.ix) = Len(exp.ix)
  /\ \A i \in 1..Len(d.ix) : d.ix[i].dual = exp.ix[i].dual /\ CmSet(d.ix[i]) \subseteq CmSet(exp.ix[i])
WhySubDen(d, exp, p) ==
  F(d.E = exp.E, p \o ".value") \cup F(d.charge = exp.charge, p \o ".charge")
  \cup F(Len(d.ix) = Len(exp.ix) /\ \A i \in 1..Len(d.ix) :
           d.ix[i].dual = exp.ix[i].dual /\ CmSet(d.ix[i]) \subseteq CmSet(exp.ix[i]), p \o ".index")
WhySameDen(d, exp, p) ==
  F(d.E = exp.E, p \o ".value") \cup F(d.charge = exp.charge, p \o ".charge")
  \cup F(d.ix = exp.ix, p \o ".index")

---------------------------------------------------------------------------
\* axes handling (arguments arrive 0-based, possibly negative, as in Python)
NormAx(a, n) == (a % n) + 1
NormAxes(as, n) == [i \in 1..Len(as) |-> NormAx(as[i], n)]
\* tensordot axes: an int k (last k of a with first k of b) or a pair of lists
TdAxes(args, na, nb) ==
  IF "naxes" \in DOMAIN args
  THEN <<[i \in 1..args.naxes |-> na - args.naxes + i], [i \in 1..args.naxes |-> i]>>
  ELSE <<NormAxes(args.axes[1], na), NormAxes(args.axes[2], nb)>>

\* do the contracted indices match (same table, opposite direction)?
Contractible(a, b, axa, axb) ==
  /\ a.sym = b.sym /\ Len(axa) = Len(axb)
  /\ \A i \in 1..Len(axa) : axa[i] \in 1..Rank(a) /\ axb[i] \in 1..Rank(b)
  /\ \A i, j \in 1..Len(axa) : i # j => axa[i] # axa[j] /\ axb[i] # axb[j]
  /\ \A i \in 1..Len(axa) :
       /\ a.ix[axa[i]].dual # b.ix[axb[i]].dual
       /\ \A c \in CmChargeSet(a.ix[axa[i]]) \cap CmChargeSet(b.ix[axb[i]]) :
            SizeOf(a.ix[axa[i]], c) = SizeOf(b.ix[axb[i]], c)

---------------------------------------------------------------------------
\* C02 abelian contraction = dense contraction over labelled coordinates
ContractElems(Ea, Eb, axa, axb) ==
  LET sa == SeqRange(axa)
      sb == SeqRange(axb)
      pairs == {p \in Ea \X Eb : Permuted(p[1].k, axa) = Permuted(p[2].k, axb)}
  IN SumByKey({ [k |-> Without(p[1].k, sa) \o Without(p[2].k, sb),
                 m |-> <<p[1].k, p[2].k>>,
                 v |-> VMul(p[1].v, p[2].v)] : p \in pairs })

ContractDen(a, b, axa, axb) ==
  [E |-> ContractElems(Elem(a), Elem(b), axa, axb),
   ix |-> [i \in 1..Len(Without(a.ix, SeqRange(axa))) |-> PlainIndex(Without(a.ix, SeqRange(axa))[i])]
          \o [i \in 1..Len(Without(b.ix, SeqRange(axb))) |-> PlainIndex(Without(b.ix, SeqRange(axb))[i])],
   charge |-> Combine(a.sym, a.charge, b.charge)]

\* result is an array, or a scalar when nothing is left
P_Contract(res, exp, p) ==
  IF IsArray(res)
  THEN F(Valid(res), p \o ".result_valid")
       \cup (IF Valid(res) /\ AllExact(res) THEN WhySubDen(Den(res), exp, p) ELSE {})
  ELSE IF IsScalar(res)
  THEN F(exp.ix = <<>>, p \o ".rank")
       \cup (IF res.exact THEN F(res.v = ValAt(exp.E, <<>>), p \o ".value") ELSE {})
  ELSE {p \o ".type"}

---------------------------------------------------------------------------
\* C08 structural / arithmetic operations at the level of the denotation
TransposeDen(x, perm) ==
  [E |-> {[k |-> Permuted(e.k, perm), v |-> e.v] : e \in Elem(x)},
   ix |-> [i \in 1..Len(perm) |-> PlainIndex(x.ix[perm[i]])],
   charge |-> x.charge]
ConjDen(x) ==
  [E |-> {[k |-> e.k, v |-> VConj(e.v)] : e \in Elem(x)},
   ix |-> [i \in 1..Len(x.ix) |-> [dual |-> ~x.ix[i].dual, cm |-> x.ix[i].cm]],
   charge |-> Neg(x.sym, x.charge)]
Reversal(n) == [i \in 1..n |-> n + 1 - i]
DaggerDen(x) ==
  LET c == ConjDen(x) IN
  [E |-> {[k |-> Permuted(e.k, Reversal(Len(x.ix))), v |-> e.v] : e \in c.E},
   ix |-> Permuted(c.ix, Reversal(Len(x.ix))), charge |-> c.charge]
ScaleDen(x, k) ==
  [E |-> NZ({[k |-> e.k, v |-> VMul(e.v, k)] : e \in Elem(x)}), ix |-> Den(x).ix, charge |-> x.charge]
NegDen(x) == ScaleDen(x, <<-1, 0>>)
\* squeeze: axes (set of 1-based positions) of size one and zero charge
SqueezeAxes(x, args) ==
  IF "axis_none" \in DOMAIN args /\ args.axis_none
  THEN {i \in 1..Rank(x) : SizeTotal(x.ix[i]) = 1}
  ELSE IF "axis_int" \in DOMAIN args THEN {NormAx(args.axis_int, Rank(x))}
  ELSE {NormAx(args.axis[i], Rank(x)) : i \in 1..Len(args.axis)}
SqueezeEnabled(x, S) ==
  \A i \in S : SizeTotal(x.ix[i]) = 1 /\ x.ix[i].cm[1].c = Zero
SqueezeDen(x, S) ==
  [E |-> {[k |-> Without(e.k, S), v |-> e.v] : e \in Elem(x)},
   ix |-> Without(Den(x).ix, S), charge |-> x.charge]
\* expand_dims at (1-based) position p with charge c and direction dual
ExpandPos(x, axis) == IF axis < 0 THEN axis + Rank(x) + 2 ELSE axis + 1
ExpandDual(x, p, args) ==
  IF "dual" \in DOMAIN args THEN args.dual
  ELSE IF p > 1 THEN x.ix[p - 1].dual
  ELSE IF p <= Rank(x) THEN x.ix[p].dual
  ELSE FALSE
InsertAt1(seq, p, e) == SubSeq(seq, 1, p - 1) \o <<e>> \o SubSeq(seq, p, Len(seq))
ExpandDen(x, p, c, dual) ==
  [E |-> {[k |-> InsertAt1(e.k, p, <<c, 0>>), v |-> e.v] : e \in Elem(x)},
   ix |-> InsertAt1(Den(x).ix, p, [dual |-> dual, cm |-> <<[c |-> c, d |-> 1]>>]),
   charge |-> Combine(x.sym, x.charge, Sign(x.sym, c, dual))]

\* binary arithmetic on two arrays with the same indices
SameShape(a, b) == Den(a).ix = Den(b).ix /\ a.charge = b.charge /\ a.sym = b.sym
AddDen(a, b, sgn) ==
  LET Ea == Elem(a)
      Eb == Elem(b)
  IN [E |-> NZ({[k |-> k, v |-> VAdd(ValAt(Ea, k), VSgn(ValAt(Eb, k), sgn))] : k \in Keys(Ea) \cup Keys(Eb)}),
      ix |-> Den(a).ix, charge |-> a.charge]
MulDen(a, b) ==
  LET Ea == Elem(a)
      Eb == Elem(b)
  IN [E |-> NZ({[k |-> k, v |-> VMul(ValAt(Ea, k), ValAt(Eb, k))] : k \in Keys(Ea) \cap Keys(Eb)}),
      ix |-> Den(a).ix, charge |-> a.charge]
\* multiply_diagonal: vector keyed by the charge of axis ax (1-based)
MulDiagDen(x, v, ax) ==
  LET Ev == VecElem(v) IN
  [E |-> NZ({[k |-> e.k, v |-> VMul(e.v, ValAt(Ev, e.k[ax]))] : e \in Elem(x)}),
   ix |-> Den(x).ix, charge |-> x.charge]
MulDiagEnabled(x, v, ax) ==
  /\ ax \in 1..Rank(x)
  /\ \A i \in 1..Len(v.blocks) :
       CmHas(x.ix[ax], v.blocks[i].c) => v.blocks[i].shape[1] = SizeOf(x.ix[ax], v.blocks[i].c)

SumOf(E) == FoldSet(LAMBDA e, acc : VAdd(acc, e.v), VZero, E)
\* trace of a matrix: sum over equal labelled coordinates
TraceOf(E) == SumOf({e \in E : e.k[1] = e.k[2]})

---------------------------------------------------------------------------
\* C14 frame: registers that are not targets keep their observable state
Obs(x) == [f \in (DOMAIN x) \ {"ids"} |-> x[f]]
FrameFails(pre, post, targets) ==
  {"C14.frame." \o r : r \in {q \in (DOMAIN pre) \ targets : q \notin DOMAIN post \/ Obs(post[q]) # Obs(pre[q])}}

---------------------------------------------------------------------------
\* C20 element types
DtOfArray(x) == {x.blocks[i].dt : i \in 1..Len(x.blocks)}
RealOf(dt) == CASE dt = "complex64" -> "float32" [] dt = "complex128" -> "float64" [] OTHER -> dt
DtFails(res, dts, p) ==
  IF IsArray(res) \/ IsVector(res) THEN F(DtOfArray(res) \subseteq dts, p)
  ELSE IF IsScalar(res) \/ IsDense(res) THEN F(res.dt \in dts, p)
  ELSE {}

=============================================================================
