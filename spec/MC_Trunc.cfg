SPECIFICATION Spec
CONSTANTS
  V = 5
  Cutoffs <- CutSet
  MaxBonds <- BondSet
  Guarded = TRUE
INVARIANT ImplKeepsWhatTheRuleSays
INVARIANT KeptAboveDiscarded
INVARIANT SplitIsExact
CHECK_DEADLOCK FALSE
