--------------------------- MODULE ChargesProofs ---------------------------
(***************************************************************************)
(* C17, the unbounded part: for the U1-type symmetries the group laws hold  *)
(* for ALL integer charges (TLC can only check a box).  Proved with TLAPS   *)
(* (SMT back end).  The definitions are those of Charges.tla restricted to  *)
(* U1 (first component) and U1U1 (pairs).                                   *)
(***************************************************************************)
EXTENDS Integers, TLAPS

U1Combine(c, d) == c + d
U1Neg(c) == 0 - c
U1Parity(c) == c % 2

THEOREM U1Assoc == \A a, b, c \in Int : U1Combine(U1Combine(a, b), c) = U1Combine(a, U1Combine(b, c))
  BY DEF U1Combine
THEOREM U1Comm == \A a, b \in Int : U1Combine(a, b) = U1Combine(b, a)
  BY DEF U1Combine
THEOREM U1Ident == \A a \in Int : U1Combine(0, a) = a
  BY DEF U1Combine
THEOREM U1Inverse == \A a \in Int : U1Neg(a) \in Int /\ U1Combine(a, U1Neg(a)) = 0
  BY DEF U1Combine, U1Neg
THEOREM U1ParityHom == \A a, b \in Int : U1Parity(U1Combine(a, b)) = (U1Parity(a) + U1Parity(b)) % 2
  BY DEF U1Combine, U1Parity

PCombine(c, d) == <<c[1] + d[1], c[2] + d[2]>>
PNeg(c) == <<0 - c[1], 0 - c[2]>>
PParity(c) == (c[1] + c[2]) % 2
Pairs == Int \X Int

THEOREM PAssoc == \A a, b, c \in Pairs : PCombine(PCombine(a, b), c) = PCombine(a, PCombine(b, c))
  BY DEF PCombine, Pairs
THEOREM PComm == \A a, b \in Pairs : PCombine(a, b) = PCombine(b, a)
  BY DEF PCombine, Pairs
THEOREM PIdent == \A a \in Pairs : PCombine(<<0, 0>>, a) = a
  BY DEF PCombine, Pairs
THEOREM PInverse == \A a \in Pairs : PNeg(a) \in Pairs /\ PCombine(a, PNeg(a)) = <<0, 0>>
  BY DEF PCombine, PNeg, Pairs
THEOREM PParityHom == \A a, b \in Pairs : PParity(PCombine(a, b)) = (PParity(a) + PParity(b)) % 2
  BY DEF PCombine, PParity, Pairs
=============================================================================
