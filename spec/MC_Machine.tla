----------------------------- MODULE MC_Machine -----------------------------
EXTENDS Machine
E(a, b, d) == [c |-> <<a, b>>, d |-> d]
PoolZ2 == {<<E(0, 0, 1), E(1, 0, 1)>>, <<E(0, 0, 2), E(1, 0, 1)>>, <<E(1, 0, 1)>>}
PoolZ2s == {<<E(0, 0, 1), E(1, 0, 1)>>, <<E(1, 0, 2)>>}
PoolU1 == {<<E(0, 0, 1), E(1, 0, 1)>>, <<E(-1, 0, 1), E(0, 0, 2), E(1, 0, 1)>>, <<E(1, 0, 1)>>}
PoolU1s == {<<E(0, 0, 1), E(1, 0, 2)>>, <<E(-1, 0, 1), E(0, 0, 1)>>}
PoolZ4 == {<<E(0, 0, 1), E(1, 0, 1), E(3, 0, 1)>>, <<E(2, 0, 2), E(3, 0, 1)>>}
PoolZ2Z2 == {<<E(0, 0, 1), E(0, 1, 1), E(1, 1, 1)>>, <<E(1, 0, 2), E(1, 1, 1)>>}
PoolU1U1 == {<<E(0, 0, 1), E(0, 1, 1), E(1, 0, 1)>>, <<E(-1, 1, 1), E(0, 0, 2)>>}
PoolZ2t == {<<E(0, 0, 1), E(1, 0, 1)>>}
PoolU1t == {<<E(0, 0, 1), E(1, 0, 1)>>, <<E(-1, 0, 1), E(0, 0, 1)>>}
OpsFuse == {"fuse"}
OpsPhase == {"phase", "conj", "transpose"}
OpsAll == {"partner", "transpose", "conj", "expand", "fuse", "tensordot", "phase"}
OpsContract == {"partner", "tensordot", "transpose"}
OpsArith == {"arith", "diag", "reduce", "transpose", "einsum"}
OpsAlgebra == {"arith", "diag", "reduce", "conj", "expand", "phase", "einsum"}
OpsEinsum == {"einsum", "transpose", "conj", "phase", "reduce"}
OpsReshape == {"reshape", "transpose", "phase"}
OpsReshapeOnly == {"reshape"}
OpsHunt1 == {"fuse", "reshape", "expand", "transpose"}
OpsHunt2 == {"fuse", "partner", "tensordot", "conj"}
OpsHunt3 == {"fuse", "arith", "reduce", "einsum", "diag"}
OpsHunt4 == {"reshape", "arith", "conj", "phase", "reduce"}
OpsChain == {"chain"}
OpsChainD == {"chain", "chain_dangling"}
OpsStruct == {"transpose", "conj", "expand", "fuse", "phase"}
=============================================================================
