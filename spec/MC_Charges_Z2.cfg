SPECIFICATION Spec
CONSTANTS
  Sym = "Z2"
  BoxK = 6
  MaxRank = 3
INVARIANT SectorsExact
CHECK_DEADLOCK FALSE
