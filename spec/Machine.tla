------------------------------- MODULE Machine -------------------------------
(***************************************************************************)
(* The register machine: symmray as a state machine.                        *)
(*                                                                          *)
(*   state      reg  : register name -> abstract array                       *)
(*   actions    New (build an input from a descriptor), NewPartner (an array  *)
(*              contractible with an existing one), and one action per public *)
(*              operation, computing the result with the IMPLEMENTATION-      *)
(*              SHAPED operators (Impl / FermiImpl)                           *)
(*   property   every transition satisfies every listed property clause       *)
(*              (EventFails = {}) - "Impl |= Props" for all small instances   *)
(*                                                                          *)
(* `hist` records the program; every maximal program is printed and replayed *)
(* into the real library, where trace validation also compares the real      *)
(* post-state with the model's (L2).  Input values follow the harness'       *)
(* counting fill, so model and implementation hold the very same arrays.     *)
(***************************************************************************)
EXTENDS Clauses

CONSTANTS Ignore,     \* set of clause names not to stop at
          Sym,        \* symmetry name
          Kind,       \* "abelian" | "fermionic"
          IxPool,     \* set of charge tables: sequences of [c, d] (sorted)
          MaxRank,    \* rank of fresh inputs
          MaxDepth,   \* number of steps of a program
          OpSet,      \* names of the enabled operation families
          SampleMod,  \* export one program in SampleMod (deterministic hash of the program)
          SampleSeed

VARIABLES reg, hist, bad
vars == <<reg, hist, bad>>

RegName(n) == CASE n = 1 -> "r1" [] n = 2 -> "r2" [] n = 3 -> "r3" [] n = 4 -> "r4" [] n = 5 -> "r5" [] n = 6 -> "r6" [] OTHER -> "r7"
Fresh == RegName(Cardinality(DOMAIN reg) + 1)
Regs == DOMAIN reg

---------------------------------------------------------------------------
Build(d) == BuildArray(Sym, Kind, d)
ValidSectorSeq(ixs, charge) == ValidSectorSeqS(Sym, ixs, charge)

Indices == [dual : BOOLEAN, cm : IxPool]
TotalsOf(ixs) == {SignedCombine(Sym, s, [i \in 1..Len(ixs) |-> ixs[i].dual]) :
                    s \in SeqRange(ProdSeqs([i \in 1..Len(ixs) |-> [k \in 1..Len(ixs[i].cm) |-> ixs[i].cm[k].c]]))}
NSectors(ixs, charge) == Len(ValidSectorSeq([i \in 1..Len(ixs) |-> [dual |-> ixs[i].dual, cm |-> ixs[i].cm, sub |-> <<>>]], charge))
\* sparsity patterns: everything, first sector missing, last sector missing
Drops(n) == {{}} \cup (IF n > 1 THEN {{0}, {n - 1}} ELSE {})
PhaseSets == IF Kind = "fermionic" THEN {{}, {0}} ELSE {{}}
Descs(ixs, start, label) ==
  {[ix |-> ixs, charge |-> c, drop |-> dr, start |-> start, phases |-> ph, oddpos |-> label] :
     c \in TotalsOf(ixs), dr \in Drops(2), ph \in PhaseSets}

---------------------------------------------------------------------------
Step(op, args, ins, outs, entry) == [op |-> op, args |-> args, in |-> ins, out |-> outs, entry |-> entry]
\* the event a transition corresponds to (same shape as a recorded one)
Ev(st, post) == [tid |-> 0, seq |-> Len(hist) + 1, op |-> st.op, args |-> st.args, in |-> st.in, out |-> st.out,
                 entry |-> st.entry, outcome |-> "ok", exc |-> "", regs |-> post]

New ==
  /\ Cardinality(Regs) = 0
  /\ \E n \in 1..MaxRank : \E ixs \in [1..n -> Indices] : \E d \in Descs(ixs, 1, 3) :
       /\ d.drop \subseteq 0..(NSectors(ixs, d.charge) - 1)
       /\ reg' = (Fresh :> Build(d))
       /\ hist' = Append(hist, [op |-> "new", out |-> <<Fresh>>, desc |-> d])
       /\ bad' = {"C01.input." \o w : w \in ValidWhy(Build(d))}

\* an array whose first indices are the conjugates of axes `axs` of r (in that order) plus `nfree` fresh ones
NewPartner ==
  /\ "partner" \in OpSet /\ Cardinality(Regs) = 1 /\ Len(hist) < MaxDepth
  /\ \E r \in Regs : \E k \in 0..Rank(reg[r]) : \E axs \in {q \in [1..k -> 1..Rank(reg[r])] : \A i, j \in 1..k : i # j => q[i] # q[j]} :
     \E nfree \in 0..1 : \E fr \in [1..nfree -> Indices] :
       LET ixs == [i \in 1..k |-> [dual |-> ~reg[r].ix[axs[i]].dual, cm |-> reg[r].ix[axs[i]].cm]] \o fr
       IN /\ Len(ixs) >= 1
          /\ \E d \in Descs(ixs, 11, 7) :
               /\ d.drop \subseteq 0..(NSectors(ixs, d.charge) - 1)
               /\ reg' = reg @@ (Fresh :> Build(d))
               /\ hist' = Append(hist, [op |-> "new", out |-> <<Fresh>>, desc |-> d, partner_of |-> r, axes |-> axs])
               /\ bad' = {}

\* a second array over the same indices and charge (for the elementwise binary operations)
NewSibling ==
  /\ "arith" \in OpSet /\ Cardinality(Regs) = 1 /\ Len(hist) < MaxDepth
  /\ \E r \in Regs :
       LET ixs == [i \in 1..Rank(reg[r]) |-> [dual |-> reg[r].ix[i].dual, cm |-> reg[r].ix[i].cm]]
       IN \E d \in Descs(ixs, 21, 3) :
            /\ d.charge = reg[r].charge
            /\ d.drop \subseteq 0..(NSectors(ixs, d.charge) - 1)
            /\ reg' = reg @@ (Fresh :> Build(d))
            /\ hist' = Append(hist, [op |-> "new", out |-> <<Fresh>>, desc |-> d, sibling_of |-> r])
            /\ bad' = {}
\* a block vector over (all, or all but the first, of) the charges of one axis of r
NewVector ==
  /\ "diag" \in OpSet /\ Cardinality(Regs) = 1 /\ Len(hist) < MaxDepth
  /\ \E r \in Regs : \E ax \in 1..Rank(reg[r]) : \E skip \in 0..1 :
       LET cm == reg[r].ix[ax].cm
           vd == [blocks |-> SubSeq(cm, 1 + skip, Len(cm)), start |-> 31]
       IN /\ reg' = reg @@ (Fresh :> BuildVector(vd))
          /\ hist' = Append(hist, [op |-> "new", out |-> <<Fresh>>, vdesc |-> vd, vector_for |-> r, axis |-> ax])
          /\ bad' = {}

\* apply a public operation: the result is the implementation-shaped prediction
Apply(st) ==
  LET ev0 == Ev(st, reg)
      m == ImplOf(ev0, reg)
  IN /\ m[1]
     /\ LET post == (st.out[1] :> m[2]) @@ reg IN
        /\ reg' = post
        /\ hist' = Append(hist, st)
        /\ bad' = EventFails(Ev(st, post), reg)

\* a chain of three tensors  r1 -(bond 1)- r2 -(bond 2)- r3  with at most one dangling leg (on r1 or on r3)
ConjIx(ix) == [dual |-> ~ix.dual, cm |-> ix.cm]
NewChain ==
  /\ "chain" \in OpSet /\ Cardinality(Regs) = 0
  /\ \E i1, i2 \in Indices : \E dang \in (IF "chain_dangling" \in OpSet THEN {"none", "left", "right"} ELSE {"none"}) : \E f \in Indices :
       LET ixs1 == (IF dang = "left" THEN <<f>> ELSE <<>>) \o <<i1>>
           ixs2 == <<ConjIx(i1), i2>>
           ixs3 == <<ConjIx(i2)>> \o (IF dang = "right" THEN <<f>> ELSE <<>>)
       IN /\ (dang = "none" => f = i1)      \* f is irrelevant then: do not multiply states
          /\ \E d1 \in Descs(ixs1, 1, 3) : \E d2 \in Descs(ixs2, 11, 5) : \E d3 \in Descs(ixs3, 21, 7) :
               /\ d1.drop \subseteq 0..(NSectors(ixs1, d1.charge) - 1)
               /\ d2.drop \subseteq 0..(NSectors(ixs2, d2.charge) - 1)
               /\ d3.drop \subseteq 0..(NSectors(ixs3, d3.charge) - 1)
               /\ reg' = ("r1" :> Build(d1)) @@ ("r2" :> Build(d2)) @@ ("r3" :> Build(d3))
               /\ hist' = <<[op |-> "new", out |-> <<"r1">>, desc |-> d1, chain |-> dang],
                            [op |-> "new", out |-> <<"r2">>, desc |-> d2, chain |-> dang],
                            [op |-> "new", out |-> <<"r3">>, desc |-> d3, chain |-> dang]>>
               /\ bad' = {}
\* the two contractions of a route, in either operand order and any mode: first a neighbouring pair of leaves,
\* then the intermediate with the remaining leaf
\* leg identities: "b1", "b2" are the bonds, "f" the dangling leg
LeafLegs(r, dang) ==
  CASE r = "r1" -> (IF dang = "left" THEN <<"f">> ELSE <<>>) \o <<"b1">>
    [] r = "r2" -> <<"b1", "b2">>
    [] r = "r3" -> <<"b2">> \o (IF dang = "right" THEN <<"f">> ELSE <<>>)
PosOf(seq, x) == CHOOSE k \in 1..Len(seq) : seq[k] = x
SharedLeg(la, lb) == CHOOSE x \in SeqRange(la) : x \in SeqRange(lb)
R4Legs(dang) ==
  LET a == hist[4].in[1]
      b == hist[4].in[2]
      la == LeafLegs(a, dang)
      lb == LeafLegs(b, dang)
      x == SharedLeg(la, lb)
  IN SelectSeq(la, LAMBDA l : l # x) \o SelectSeq(lb, LAMBDA l : l # x)
ChainLeaf(r) == r \in {"r1", "r2", "r3"}
Adjacent(a, b) == {a, b} \in {{"r1", "r2"}, {"r2", "r3"}}
\* which axes carry the bond between chain members (by construction of NewChain)
ChainAxes(a, b, dang) ==
  LET off == IF dang = "left" THEN 1 ELSE 0 IN
  CASE a = "r1" /\ b = "r2" -> <<1 + off, 1>>
    [] a = "r2" /\ b = "r1" -> <<1, 1 + off>>
    [] a = "r2" /\ b = "r3" -> <<2, 1>>
    [] a = "r3" /\ b = "r2" -> <<1, 2>>
OpChainStep ==
  "chain" \in OpSet /\ Len(hist) \in {3, 4} /\ "chain" \in DOMAIN hist[1] /\
  \E mode \in {"fused", "blockwise"} :
    IF Len(hist) = 3
    THEN \E a, b \in {"r1", "r2", "r3"} : Adjacent(a, b) /\
           LET ax == ChainAxes(a, b, hist[1].chain) IN
           Apply(Step("tensordot", [axes |-> <<<<ax[1] - 1>>, <<ax[2] - 1>>>>, mode |-> mode, preserve_array |-> TRUE],
                      <<a, b>>, <<"r4">>, "symmray"))
    ELSE LET used == SeqRange(hist[4].in)
             rest == CHOOSE r \in {"r1", "r2", "r3"} : r \notin used
         IN \E flip \in BOOLEAN :
              LET dang == hist[1].chain
                  l4 == R4Legs(dang)
                  lr == LeafLegs(rest, dang)
                  x == SharedLeg(l4, lr)
                  a == IF flip THEN rest ELSE "r4"
                  b == IF flip THEN "r4" ELSE rest
                  pa == IF flip THEN PosOf(lr, x) ELSE PosOf(l4, x)
                  pb == IF flip THEN PosOf(l4, x) ELSE PosOf(lr, x)
              IN Apply(Step("tensordot", [axes |-> <<<<pa - 1>>, <<pb - 1>>>>, mode |-> mode, preserve_array |-> TRUE],
                            <<a, b>>, <<"r5">>, "symmray"))
\* C04 in the model: every route gives the tensor of the reference route (r1 r2) r3
GradedSame(x, y) ==
  IF ~IsFermi(x) THEN Elem(x) = Elem(y) /\ x.charge = y.charge
  ELSE /\ x.charge = y.charge /\ LabelsOK(x.oddpos) /\ LabelsOK(y.oddpos)
       /\ SameLabelSet(Remaining(x.oddpos), Remaining(y.oddpos))
       /\ FlipDen(Den(x), ResolveSign(x.oddpos)).E
            = FlipDen(Den(y), ResolveSign(y.oddpos) * ReorderSign(Remaining(y.oddpos), Remaining(x.oddpos))).E
ChainRef ==
  LET dang == hist[1].chain
      a12 == ChainAxes("r1", "r2", dang)
      t == IF Kind = "fermionic" THEN IFTensordot(reg["r1"], reg["r2"], <<a12[1]>>, <<a12[2]>>, "blockwise")
           ELSE ITensordotBlockwise(reg["r1"], reg["r2"], <<a12[1]>>, <<a12[2]>>)
      \* r4' = legs of r1 without the bond, then the second leg of r2
      k == Rank(t)
  IN IF Kind = "fermionic" THEN IFTensordot(t, reg["r3"], <<k>>, <<1>>, "blockwise")
     ELSE ITensordotBlockwise(t, reg["r3"], <<k>>, <<1>>)
RouteIndependent ==
  (Len(hist) = 5 /\ "chain" \in DOMAIN hist[1] /\ "r5" \in Regs /\ LabelsOK(reg["r1"].oddpos \o reg["r2"].oddpos \o reg["r3"].oddpos))
    => LET got == reg["r5"]
           ref == ChainRef
       IN \* the dangling leg may sit at either end of the result: rank <= 1, nothing to permute
          GradedSame(got, ref)

\* operations returning a number / a dense array: the value is given by the implementation-shaped operators
ApplyValue(st, val) ==
  LET post == (st.out[1] :> val) @@ reg IN
  /\ reg' = post
  /\ hist' = Append(hist, st)
  /\ bad' = EventFails(Ev(st, post), reg)
ScalarRec(v) == [t |-> "scalar", v |-> v, exact |-> TRUE, dt |-> "float64"]
Synced(x) == IF IsFermi(x) THEN IPhaseSync(x) ELSE x

Perms(n) == {p \in [1..n -> 1..n] : \A i, j \in 1..n : i # j => p[i] # p[j]}
ZeroBased(seq) == [i \in 1..Len(seq) |-> seq[i] - 1]
Arrays == {r \in Regs : IsArray(reg[r])}

OpTranspose == "transpose" \in OpSet /\ \E r \in Arrays : \E p \in Perms(Rank(reg[r])) :
                  Apply(Step("transpose", [axes |-> ZeroBased(p)], <<r>>, <<Fresh>>, "method"))
OpConj == "conj" \in OpSet /\ \E r \in Arrays :
            \/ Apply(Step("conj", [x |-> 0], <<r>>, <<Fresh>>, "method"))
            \/ Apply(Step("dagger", [x |-> 0], <<r>>, <<Fresh>>, "method"))
            \/ (Kind = "fermionic" /\ Apply(Step("conj", [phase_dual |-> TRUE], <<r>>, <<Fresh>>, "method")))
            \/ (Kind = "fermionic" /\ Apply(Step("dagger", [phase_dual |-> TRUE], <<r>>, <<Fresh>>, "method")))
OpExpand == "expand" \in OpSet /\ \E r \in Arrays : \E ax \in 0..Rank(reg[r]) :
              Apply(Step("expand_dims", [axis |-> ax], <<r>>, <<Fresh>>, "method"))
OpSqueeze == "expand" \in OpSet /\ \E r \in Arrays :
               \E ax \in {i \in 1..Rank(reg[r]) : SizeTotal(reg[r].ix[i]) = 1 /\ reg[r].ix[i].cm[1].c = Zero} :
                 Apply(Step("squeeze", [axis |-> <<ax - 1>>], <<r>>, <<Fresh>>, "method"))
FuseGroupings(n) ==
  {<<g>> : g \in {q \in [1..2 -> 1..n] : q[1] # q[2]}}
  \cup (IF n >= 3 THEN {<<g>> : g \in {q \in [1..3 -> 1..n] : q[1] # q[2] /\ q[1] # q[3] /\ q[2] # q[3] /\ q[1] < q[2]}} ELSE {})
  \cup (IF n >= 3 THEN {<<<<q[1], q[2]>>, <<q[3]>>>> : q \in {w \in [1..3 -> 1..n] : w[1] # w[2] /\ w[1] # w[3] /\ w[2] # w[3]}} ELSE {})
OpFuse == "fuse" \in OpSet /\ \E r \in Arrays : reg[r].blocks # <<>> /\ \E gs \in FuseGroupings(Rank(reg[r])) :
            Apply(Step("fuse", [groups |-> [g \in 1..Len(gs) |-> ZeroBased(gs[g])]], <<r>>, <<Fresh>>, "method"))
OpUnfuse == "fuse" \in OpSet /\ \E r \in Arrays : \E ax \in {i \in 1..Rank(reg[r]) : IsFused(reg[r].ix[i])} :
              Apply(Step("unfuse", [axis |-> ax - 1], <<r>>, <<Fresh>>, "method"))
\* contraction of r with its recorded partner over the recorded axes, in every mode
OpTensordot ==
  "tensordot" \in OpSet /\ \E i \in 1..Len(hist) :
     /\ hist[i].op = "new" /\ "partner_of" \in DOMAIN hist[i]
     /\ LET a == hist[i].partner_of
            b == hist[i].out[1]
            k == Len(hist[i].axes)
        IN \E mode \in {"fused", "blockwise", "auto"} :
           Apply(Step("tensordot", [axes |-> <<ZeroBased(hist[i].axes), [j \in 1..k |-> j - 1]>>, mode |-> mode,
                                    preserve_array |-> TRUE], <<a, b>>, <<Fresh>>, "symmray"))
OpPhase ==
  "phase" \in OpSet /\ Kind = "fermionic" /\ \E r \in Arrays :
     \/ Apply(Step("phase_sync", [x |-> 0], <<r>>, <<Fresh>>, "method"))
     \/ Apply(Step("phase_global", [x |-> 0], <<r>>, <<Fresh>>, "method"))
     \/ \E ax \in 1..Rank(reg[r]) : Apply(Step("phase_flip", [axs |-> <<ax - 1>>], <<r>>, <<Fresh>>, "method"))
     \/ \E p \in Perms(Rank(reg[r])) : Apply(Step("phase_transpose", [axes |-> ZeroBased(p)], <<r>>, <<Fresh>>, "method"))

OpArith ==
  "arith" \in OpSet /\
    \/ \E r \in Arrays :
         \/ Apply(Step("neg", [x |-> 0], <<r>>, <<Fresh>>, "method"))
         \/ Apply(Step("smul", [k |-> <<2, 0>>], <<r>>, <<Fresh>>, "method"))
         \/ Apply(Step("rsmul", [k |-> <<-1, 0>>], <<r>>, <<Fresh>>, "method"))
         \/ Apply(Step("sync_charges", [x |-> 0], <<r>>, <<Fresh>>, "method"))
         \/ Apply(Step("fill_missing_blocks", [x |-> 0], <<r>>, <<r>>, "method"))
    \/ \E a, b \in Arrays : a # b /\ \E op \in {"add", "sub", "mul"} :
         Apply(Step(op, [x |-> 0], <<a, b>>, <<Fresh>>, "method"))
    \/ \E a, b \in Arrays : a # b /\ \E op \in {"iadd", "isub", "imul"} :
         Apply(Step(op, [x |-> 0], <<a, b>>, <<a>>, "method"))
OpDiag ==
  "diag" \in OpSet /\ \E i \in 1..Len(hist) :
     /\ hist[i].op = "new" /\ "vector_for" \in DOMAIN hist[i]
     /\ \E r \in Arrays : \E ax \in 1..Rank(reg[r]) :
          Apply(Step("multiply_diagonal", [axis |-> ax - 1], <<r, hist[i].out[1]>>, <<Fresh>>, "method"))
OpReduce ==
  "reduce" \in OpSet /\ \E r \in Arrays : reg[r].blocks # <<>> /\
     \/ ApplyValue(Step("sum", [x |-> 0], <<r>>, <<Fresh>>, "method"), ScalarRec(ISum(Synced(reg[r]))))
     \/ ApplyValue(Step("norm_sq", [x |-> 0], <<r>>, <<Fresh>>, "method"), ScalarRec(<<INorm2(Synced(reg[r])), 0>>))
     \/ (Rank(reg[r]) > 0 /\
           LET d == IToDense(Synced(reg[r])) IN
           ApplyValue(Step("to_dense", [x |-> 0], <<r>>, <<Fresh>>, "method"),
                      [t |-> "dense", shape |-> d.shape, data |-> d.data, exact |-> TRUE, dt |-> "float64"]))
     \/ (Rank(reg[r]) = 2 /\ Contractible(reg[r], reg[r], <<1>>, <<2>>) /\
           ApplyValue(Step("trace", [x |-> 0], <<r>>, <<Fresh>>, "method"),
                      ScalarRec(IF IsFermi(reg[r]) THEN IFTrace(reg[r]) ELSE ITrace(reg[r]))))

\* single-array einsum: a permutation, or one traced pair of conjugate axes followed by a permutation of the rest
OpEinsum ==
  "einsum" \in OpSet /\ \E r \in Arrays :
    LET n == Rank(reg[r]) IN
    \/ (n >= 1 /\ \E p \in Perms(n) :
           Apply(Step("einsum", [lhs |-> [i \in 1..n |-> i], rhs |-> p, preserve_array |-> TRUE], <<r>>, <<Fresh>>, "method")))
    \/ \E i, j \in 1..n : i < j /\ Contractible(reg[r], reg[r], <<i>>, <<j>>) /\
          LET lhs == [k \in 1..n |-> IF k < j THEN k ELSE IF k = j THEN i ELSE k - 1]
              kept == SetToSortSeq((1..(n - 1)) \ {i}, <)
          IN \E p \in Perms(Len(kept)) :
               Apply(Step("einsum", [lhs |-> lhs, rhs |-> [k \in 1..Len(kept) |-> kept[p[k]]], preserve_array |-> TRUE],
                          <<r>>, <<Fresh>>, "method"))

\* reshape: merge two adjacent axes, merge everything, drop or insert a unit axis, or go back to the shape an
\* earlier reshape started from (round trip)
ReshapeTargetsM(x) ==
  LET sh == ShapeOf(x)
      n == Len(sh)
  IN {SubSeq(sh, 1, k - 1) \o <<sh[k] * sh[k + 1]>> \o SubSeq(sh, k + 2, n) : k \in 1..(n - 1)}
     \cup (IF n >= 2 THEN {<<ProdSeq(sh)>>} ELSE {})
     \cup {SubSeq(sh, 1, k - 1) \o SubSeq(sh, k + 1, n) : k \in {q \in 1..n : sh[q] = 1 /\ n >= 2}}
     \cup {SubSeq(sh, 1, k) \o <<1>> \o SubSeq(sh, k + 1, n) : k \in 0..n}
     \cup {ShapeOf(reg[hist[i].in[1]]) : i \in {q \in 1..Len(hist) : hist[q].op = "reshape" /\ hist[q].in[1] \in Regs}}
OpReshape ==
  "reshape" \in OpSet /\ \E r \in Arrays : reg[r].blocks # <<>> /\ \E t \in ReshapeTargetsM(reg[r]) :
     t # ShapeOf(reg[r]) /\
     LET promised == IsMergeDrop(ShapeOf(reg[r]), t) \/ \E i \in 1..Len(hist) :
                        hist[i].op = "reshape" /\ hist[i].out = <<r>> /\ hist[i].in[1] \in Regs /\ t = ShapeOf(reg[hist[i].in[1]])
                                                    /\ IsMergeDrop(t, hist[i].args.newshape)
     IN Apply(Step("reshape", IF promised THEN [newshape |-> t, back |-> TRUE] ELSE [newshape |-> t], <<r>>, <<Fresh>>, "method"))
\* C07 in the model: merge/drop and back restores the array exactly
ReshapeRoundTrip ==
  \A i, j \in 1..Len(hist) :
    (i < j /\ hist[i].op = "reshape" /\ hist[j].op = "reshape" /\ hist[j].in = hist[i].out
       /\ hist[j].args.newshape = ShapeOf(reg[hist[i].in[1]])
       /\ IsMergeDrop(ShapeOf(reg[hist[i].in[1]]), hist[i].args.newshape))
      => SameValue(reg[hist[j].out[1]], reg[hist[i].in[1]])

Init == reg = <<>> /\ hist = <<>> /\ bad = {}
Next ==
  \/ New
  \/ NewPartner
  \/ NewSibling
  \/ NewVector
  \/ NewChain
  \/ OpChainStep
  \/ (Cardinality(Regs) >= 1 /\ Len(hist) < MaxDepth /\
        (OpTranspose \/ OpConj \/ OpExpand \/ OpSqueeze \/ OpFuse \/ OpUnfuse \/ OpTensordot \/ OpPhase
         \/ OpArith \/ OpDiag \/ OpReduce \/ OpEinsum \/ OpReshape))
Spec == Init /\ [][Next]_vars

\* Impl |= Props : no transition fails any property clause
\* (Ignore: clauses of OTHER properties that a run has already seen violated - the check of property P only stops
\* at clauses of P; see vlib/machine.py)
AllPropertiesHold == bad \subseteq Ignore
\* C01 as a state invariant of the machine
AllValid == \A r \in Regs : IsArray(reg[r]) => Valid(reg[r])

\* spec -> code: a deterministic sample of the maximal programs is printed and replayed
SumInts(seq) == FoldLeft(LAMBDA acc, e : acc + e, 0, seq)
HashDesc(d) == SumInts([i \in 1..Len(d.ix) |-> (IF d.ix[i].dual THEN 7 ELSE 3) * i + 5 * Len(d.ix[i].cm) + d.ix[i].cm[1].d + 2 * d.ix[i].cm[1].c[1]])
               + 11 * d.charge[1] + 13 * d.charge[2] + 17 * Cardinality(d.drop) + 19 * Cardinality(d.phases)
               + (IF 0 \in d.drop THEN 23 ELSE 0)
HashSeq(q) == SumInts([i \in 1..Len(q) |-> (i + 1) * (q[i] + 1)])
HashStep(st) ==
  CASE st.op = "new" /\ "vdesc" \in DOMAIN st -> 71 + 3 * Len(st.vdesc.blocks) + st.axis
    [] st.op = "new" -> HashDesc(st.desc)
    [] st.op \in {"add", "sub", "mul", "iadd", "isub", "imul"} ->
         (CASE st.op = "add" -> 73 [] st.op = "sub" -> 79 [] st.op = "mul" -> 83 [] st.op = "iadd" -> 89 [] st.op = "isub" -> 97 [] OTHER -> 101)
         + (IF st.in[1] = "r1" THEN 1 ELSE 0)
    [] st.op = "multiply_diagonal" -> 103 + st.args.axis
    [] st.op \in {"smul", "rsmul"} -> 107 + st.args.k[1]
    [] st.op = "neg" -> 109
    [] st.op = "reshape" -> 157 + HashSeq(st.args.newshape)
    [] st.op = "einsum" -> 151 + HashSeq(st.args.lhs) + 3 * HashSeq(st.args.rhs)
    [] st.op = "sum" -> 113
    [] st.op = "norm_sq" -> 127
    [] st.op = "to_dense" -> 131
    [] st.op = "trace" -> 137
    [] st.op = "sync_charges" -> 139
    [] st.op = "fill_missing_blocks" -> 149
    [] st.op = "tensordot" -> 31 + HashSeq(st.args.axes[1]) + (CASE st.args.mode = "fused" -> 1 [] st.args.mode = "blockwise" -> 2 [] OTHER -> 3)
    [] st.op \in {"transpose", "phase_transpose"} -> 37 + HashSeq(st.args.axes)
    [] st.op = "fuse" -> 41 + SumInts([g \in 1..Len(st.args.groups) |-> (g + 2) * HashSeq(st.args.groups[g])])
    [] st.op \in {"expand_dims", "unfuse"} -> 43 + st.args.axis
    [] st.op = "squeeze" -> 47 + HashSeq(st.args.axis)
    [] st.op = "phase_flip" -> 53 + HashSeq(st.args.axs)
    [] st.op = "conj" -> 59 + (IF "phase_dual" \in DOMAIN st.args THEN 1 ELSE 0)
    [] st.op = "dagger" -> 61 + (IF "phase_dual" \in DOMAIN st.args THEN 1 ELSE 0)
    [] OTHER -> 67
ProgHash == SumInts([i \in 1..Len(hist) |-> (2 * i + 1) * HashStep(hist[i])])
Export == (Len(hist) = MaxDepth /\ (ProgHash + SampleSeed) % SampleMod = 0) => PrintT(<<"PROG", hist>>)
=============================================================================
