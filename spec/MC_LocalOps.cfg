SPECIFICATION Spec
CONSTANTS
  NModes = 3
  MaxLen = 6
INVARIANT BubbleIsFock
INVARIANT AdjointSame
INVARIANT Anticommute
CHECK_DEADLOCK FALSE
