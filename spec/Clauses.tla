------------------------------ MODULE Clauses ------------------------------
(***************************************************************************)
(* Which clauses apply to which recorded operation.  EventFails(ev, pre)    *)
(* is the set of names of the L1 clauses (property predicates) that are     *)
(* FALSE on the event; EventDrift(ev, pre) the L2 (implementation-shaped)   *)
(* disagreements.                                                           *)
(***************************************************************************)
EXTENDS FermiImpl

Has(r, f) == f \in DOMAIN r
Labels(x) == IF IsFermi(x) THEN x.oddpos ELSE <<>>
Flag(a, f) == f \in DOMAIN a /\ a[f] = TRUE
Ins(ev, pre, i) == pre[ev.in[i]]
Outs(ev, i) == ev.regs[ev.out[i]]

Targets(ev) ==
  SeqRange(ev.out) \cup (IF Flag(ev.args, "inplace") /\ ev.in # <<>> THEN {ev.in[1]} ELSE {})
                   \cup (IF ev.op \in {"fill_missing_blocks", "drop_missing_blocks",
                                       "iadd", "isub", "imul", "itruediv", "ipow", "ismul", "isdiv"}
                         THEN {ev.in[1]} ELSE {})

\* the generic judgement: an enabled call must not raise and must satisfy `fails`
Judge(ev, enabled, fails, p) ==
  IF ~enabled THEN {}
  ELSE IF ev.outcome = "raise" THEN (IF ev.entry = "suite" THEN {} ELSE {p \o ".raises"})   \* calls traced from the repository's suite may raise on purpose
  ELSE fails

\* C08 says "an operation either does this or raises": raising is never a C08 violation
JudgeR(ev, enabled, fails, p) ==
  IF ~enabled \/ ev.outcome = "raise" THEN {} ELSE fails

---------------------------------------------------------------------------
\* clauses evaluated on every event

\* C01: every array in a target register is valid, provided the call was applied
\* to valid arrays (the property speaks about operations "applied to valid arrays")
InputsValid(ev, pre) ==
  \A i \in 1..Len(ev.in) : LET v == pre[ev.in[i]] IN
     (IsArray(v) => Valid(v)) /\ (IsVector(v) => ValidVector(v))
ValidFails(ev, pre) ==
  IF ev.op = "rel" \/ ~InputsValid(ev, pre) THEN {}
  ELSE UNION { LET v == ev.regs[r] IN
          IF IsArray(v) THEN {"C01.valid." \o w : w \in ValidWhy(v)}
          ELSE IF IsVector(v) THEN F(ValidVector(v), "C01.valid.vector")
          ELSE {} : r \in Targets(ev) \cap DOMAIN ev.regs }

\* C20: element types of results
InDts(ev, pre) ==
  UNION { LET v == pre[ev.in[i]] IN
          IF IsArray(v) \/ IsVector(v) THEN DtOfArray(v)
          ELSE IF IsScalar(v) \/ IsDense(v) THEN {v.dt} ELSE {} : i \in 1..Len(ev.in) }
RealValuedOps == {"norm", "norm_sq", "abs", "allclose", "isfinite", "all", "any"}
DtypeFails(ev, pre) ==
  IF ev.outcome = "raise" \/ ev.op = "init" \/ ev.in = <<>> THEN {}
  ELSE LET dts == InDts(ev, pre)
           \* a single input element type: results must keep it
           single == Cardinality(dts) = 1
           dt == CHOOSE d \in dts : TRUE
           \* two operands of one element type each, the types differ: products take the common type
           Promote(a, b) ==
             LET cplx == {"complex64", "complex128"}  dbl == {"float64", "complex128"} IN
             IF a \in dbl \/ b \in dbl THEN (IF a \in cplx \/ b \in cplx THEN "complex128" ELSE "float64")
             ELSE (IF a \in cplx \/ b \in cplx THEN "complex64" ELSE "float32")
           opdts(i) == LET v == pre[ev.in[i]] IN IF IsArray(v) \/ IsVector(v) THEN DtOfArray(v) ELSE {}
           known == {"float32", "float64", "complex64", "complex128"}
       IN IF ~single
          THEN IF Len(ev.in) = 2 /\ ev.op \in {"multiply_diagonal", "mul", "tensordot", "matmul", "solve"}
                  /\ Cardinality(opdts(1)) = 1 /\ Cardinality(opdts(2)) = 1 /\ opdts(1) \subseteq known /\ opdts(2) \subseteq known
               THEN LET p == Promote(CHOOSE d \in opdts(1) : TRUE, CHOOSE d \in opdts(2) : TRUE) IN
                    UNION { LET v == ev.regs[ev.out[i]] IN
                            IF IsArray(v) \/ IsVector(v) THEN DtFails(v, {p}, "C20.dtype.common_type") ELSE {} : i \in 1..Len(ev.out) }
               ELSE {}
          ELSE UNION { LET v == ev.regs[ev.out[i]] IN
                 IF ev.op \in {"svd", "svd_truncated"} /\ IsVector(v) THEN DtFails(v, {RealOf(dt)}, "C20.dtype.real")
                 ELSE IF ev.op = "eigh" /\ IsVector(v) THEN DtFails(v, {RealOf(dt)}, "C20.dtype.real")
                 ELSE IF ev.op \in {"norm", "norm_sq", "abs"}
                 THEN \* real-valued results keep the PRECISION: the real counterpart of the operands' element type
                      (IF IsArray(v) \/ IsVector(v) THEN DtFails(v, {RealOf(dt)}, "C20.dtype.real_result")
                       ELSE IF IsScalar(v) /\ v.dt \notin {"pyfloat", "pyint", "pycomplex", "bool", "pybool"} THEN DtFails(v, {RealOf(dt)}, "C20.dtype.real_result")
                       ELSE {})
                 ELSE IF ev.op \in RealValuedOps THEN {}
                 ELSE IF IsArray(v) \/ IsVector(v) \/ IsDense(v) THEN DtFails(v, {dt}, "C20.dtype")
                 ELSE IF IsScalar(v) /\ v.dt \notin {"pyfloat", "pyint", "pycomplex"} THEN DtFails(v, {dt}, "C20.dtype.scalar")
                 ELSE {} : i \in 1..Len(ev.out) }

---------------------------------------------------------------------------
\* abelian operations (C02, C08)

AbTranspose(ev, pre) ==
  LET x == Ins(ev, pre, 1)
      n == Rank(x)
      perm == IF Flag(ev.args, "axes_none") THEN Reversal(n) ELSE [i \in 1..Len(ev.args.axes) |-> ev.args.axes[i] + 1]
      en == IsPermOf(perm, n)
  IN JudgeR(ev, en, LET r == Outs(ev, 1) IN
       F(Valid(r), "C08.transpose.result_valid") \cup
       (IF Valid(r) /\ AllExact(r) THEN WhySameDen(Den(r), TransposeDen(x, perm), "C08.transpose") ELSE {}),
       "C08.transpose")

AbUnary(ev, pre, exp, p) ==
  JudgeR(ev, TRUE, LET r == Outs(ev, 1) IN
       F(IsArray(r) /\ Valid(r), p \o ".result_valid") \cup
       (IF IsArray(r) /\ Valid(r) /\ AllExact(r) THEN WhySameDen(Den(r), exp, p) ELSE {}), p)

AbSqueeze(ev, pre) ==
  LET x == Ins(ev, pre, 1)
      S == SqueezeAxes(x, ev.args)
      en == S \subseteq 1..Rank(x) /\ SqueezeEnabled(x, S)
  IN JudgeR(ev, en, LET r == Outs(ev, 1) IN
       F(Valid(r), "C08.squeeze.result_valid") \cup
       (IF Valid(r) /\ AllExact(r) THEN WhySameDen(Den(r), SqueezeDen(x, S), "C08.squeeze") ELSE {}),
       "C08.squeeze")

AbExpand(ev, pre) ==
  LET x == Ins(ev, pre, 1)
      p == ExpandPos(x, ev.args.axis)
      c == IF Has(ev.args, "c") THEN ev.args.c ELSE Zero
      d == ExpandDual(x, p, ev.args)
      en == p \in 1..(Rank(x) + 1) /\ ValidCharge(x.sym, c)
  IN JudgeR(ev, en, LET r == Outs(ev, 1) IN
       F(Valid(r), "C08.expand_dims.result_valid") \cup
       (IF Valid(r) /\ AllExact(r) THEN WhySameDen(Den(r), ExpandDen(x, p, c, d), "C08.expand_dims") ELSE {}),
       "C08.expand_dims")

AbTensordot(ev, pre) ==
  LET a == Ins(ev, pre, 1)
      b == Ins(ev, pre, 2)
      ax == TdAxes(ev.args, Rank(a), Rank(b))
      en == /\ IsArray(b) /\ ~IsFermi(b)
            /\ (Has(ev.args, "naxes") => ev.args.naxes \in 0..Rank(a) /\ ev.args.naxes <= Rank(b))
            /\ Contractible(a, b, ax[1], ax[2])
            /\ (Has(ev.args, "mode") => ev.args.mode \in {"auto", "fused", "blockwise", "default"})
  IN Judge(ev, en,
       LET r == Outs(ev, 1) IN
         P_Contract(r, ContractDen(a, b, ax[1], ax[2]), "C02.tensordot")
         \cup F(Flag(ev.args, "preserve_array") => IsArray(r), "C02.tensordot.preserve_array"),
       "C02.tensordot")

AbMatmul(ev, pre) ==
  LET a == Ins(ev, pre, 1)
      b == Ins(ev, pre, 2)
      axa == <<Rank(a)>>
      axb == <<1>>
      en == Rank(a) \in {1, 2} /\ Rank(b) \in {1, 2} /\ Contractible(a, b, axa, axb)
  IN Judge(ev, en, P_Contract(Outs(ev, 1), ContractDen(a, b, axa, axb), "C02.matmul"), "C02.matmul")

AbTrace(ev, pre) ==
  LET x == Ins(ev, pre, 1)
      en == Rank(x) = 2 /\ Contractible(x, x, <<1>>, <<2>>)
  IN Judge(ev, en, LET r == Outs(ev, 1) IN
        IF IsScalar(r) THEN (IF r.exact THEN F(r.v = TraceOf(Elem(x)), "C02.trace.value") ELSE {})
        ELSE {"C02.trace.type"}, "C02.trace")

AbBinary(ev, pre) ==
  LET a == Ins(ev, pre, 1)
      b == Ins(ev, pre, 2)
      en == IsArray(b) /\ ~IsFermi(b) /\ SameShape(a, b)
      exp == CASE ev.op \in {"add", "iadd"} -> AddDen(a, b, 1)
               [] ev.op \in {"sub", "isub"} -> AddDen(a, b, -1)
               [] ev.op \in {"mul", "imul"} -> MulDen(a, b)
      p == "C08." \o ev.op
  IN \* C08: the operation either gives the dense result or raises
     IF ~en \/ ev.outcome = "raise" THEN {}
     ELSE LET r == Outs(ev, 1) IN
          F(IsArray(r) /\ Valid(r), p \o ".result_valid") \cup
          (IF IsArray(r) /\ Valid(r) /\ AllExact(r) THEN WhySameDen(Den(r), exp, p) ELSE {})

AbScalarOp(ev, pre) ==
  LET x == Ins(ev, pre, 1)
      k == ev.args.k
      p == "C08." \o ev.op
  IN CASE ev.op \in {"smul", "rsmul", "ismul"} -> AbUnary(ev, pre, ScaleDen(x, k), p)
       [] ev.op \in {"sdiv", "isdiv"} ->
            \* exported divisors divide every entry: r * k = x
            JudgeR(ev, k # VZero, LET r == Outs(ev, 1) IN
               F(IsArray(r) /\ Valid(r), p \o ".result_valid") \cup
               (IF IsArray(r) /\ Valid(r) /\ AllExact(r) THEN WhySameDen(ScaleDen(r, k), Den(x), p) ELSE {}), p)
       [] OTHER -> {}

AbMulDiag(ev, pre) ==
  LET x == Ins(ev, pre, 1)
      v == Ins(ev, pre, 2)
      ax == NormAx(ev.args.axis, Rank(x))
      en == IsVector(v) /\ MulDiagEnabled(x, v, ax)
  IN JudgeR(ev, en, LET r == Outs(ev, 1) IN
       F(IsArray(r) /\ Valid(r), "C08.multiply_diagonal.result_valid") \cup
       (IF IsArray(r) /\ Valid(r) /\ AllExact(r)
        THEN WhySubDen(Den(r), MulDiagDen(x, v, ax), "C08.multiply_diagonal") ELSE {}),
       "C08.multiply_diagonal")

AbReduce(ev, pre) ==
  LET x == Ins(ev, pre, 1)
      r == Outs(ev, 1)
  IN IF ev.outcome = "raise" THEN {}   \* e.g. reductions of an array without blocks
     ELSE CASE ev.op = "sum" -> IF IsScalar(r) /\ r.exact THEN F(r.v = SumOf(Elem(x)), "C08.sum.value") ELSE {}
            [] ev.op = "norm" -> {}    \* compared squared via the logged observation (see LinalgClauses)
            [] OTHER -> {}

AbToDense(ev, pre) ==
  LET x == Ins(ev, pre, 1)
      r == Outs(ev, 1)
  IN Judge(ev, x.blocks # <<>>,
       IF Rank(x) = 0
       THEN (IF IsScalar(r) /\ r.exact /\ AllExact(x) THEN F(r.v = ValAt(Elem(x), <<>>), "C16.to_dense.value") ELSE {})
       ELSE F(IsDense(r) /\ r.shape = DenseShape(x), "C16.to_dense.shape")
            \cup (IF IsDense(r) /\ r.exact /\ AllExact(x) THEN F(DenseNZ(r) = DenseElems(x), "C16.to_dense.value") ELSE {}),
       "C16.to_dense")



---------------------------------------------------------------------------
\* einsum (single array): lhs / rhs arrive as sequences of letter codes
EinsumPairs(lhs, rhs) ==
  LET traced == {lhs[i] : i \in 1..Len(lhs)} \ {rhs[i] : i \in 1..Len(rhs)}
  IN {pq \in (1..Len(lhs)) \X (1..Len(lhs)) : pq[1] < pq[2] /\ lhs[pq[1]] = lhs[pq[2]] /\ lhs[pq[1]] \in traced}
EinsumKept(lhs, rhs) == [i \in 1..Len(rhs) |-> CHOOSE p \in 1..Len(lhs) : lhs[p] = rhs[i] /\ \A q \in 1..(p - 1) : lhs[q] # rhs[i]]
EinsumEnabled(x, lhs, rhs) ==
  LET traced == {lhs[i] : i \in 1..Len(lhs)} \ {rhs[i] : i \in 1..Len(rhs)}
  IN /\ Len(lhs) = Rank(x)
     /\ \A i, j \in 1..Len(rhs) : i # j => rhs[i] # rhs[j]
     /\ \A i \in 1..Len(rhs) : Cardinality({p \in 1..Len(lhs) : lhs[p] = rhs[i]}) = 1
     /\ \A t \in traced : Cardinality({p \in 1..Len(lhs) : lhs[p] = t}) = 2
     /\ \A pq \in EinsumPairs(lhs, rhs) : Contractible(x, x, <<pq[1]>>, <<pq[2]>>)
EinsumDen(x, E, kept) ==
  [E |-> E, ix |-> [i \in 1..Len(kept) |-> PlainIndex(x.ix[kept[i]])], charge |-> x.charge]

AbEinsum(ev, pre) ==
  LET x == Ins(ev, pre, 1)
      lhs == ev.args.lhs
      rhs == ev.args.rhs
  IN Judge(ev, EinsumEnabled(x, lhs, rhs),
       P_Contract(Outs(ev, 1), EinsumDen(x, EinsumElems(x, EinsumPairs(lhs, rhs), EinsumKept(lhs, rhs)), EinsumKept(lhs, rhs)), "C02.einsum"),
       "C02.einsum")

---------------------------------------------------------------------------
\* fermionic operations (C03, C09, C10)

\* result of a graded operation: array with labels, or a scalar
P_Graded(res, exp, lab, p) ==
  IF IsArray(res)
  THEN F(Valid(res), p \o ".result_valid")
       \cup (IF Valid(res) /\ AllExact(res) THEN WhyGraded(res, exp, lab, p) ELSE {})
  ELSE IF IsScalar(res)
  THEN F(exp.ix = <<>>, p \o ".rank")
       \cup (IF res.exact /\ lab = <<>> THEN F(res.v = ValAt(exp.E, <<>>), p \o ".value") ELSE {})
  ELSE {p \o ".type"}

FeTranspose(ev, pre) ==
  LET x == Ins(ev, pre, 1)
      n == Rank(x)
      perm == IF Flag(ev.args, "axes_none") THEN Reversal(n) ELSE [i \in 1..Len(ev.args.axes) |-> ev.args.axes[i] + 1]
      graded == ~(Has(ev.args, "phase") /\ ev.args.phase = FALSE)
      en == IsPermOf(perm, n)
  IN Judge(ev, en, LET r == Outs(ev, 1) IN
       F(Valid(r), "C03.transpose.result_valid") \cup
       (IF Valid(r) /\ AllExact(r)
        THEN (IF graded THEN WhySameDen(Den(r), GTransposeDen(x, perm), "C03.transpose")
              ELSE {}) \cup F(r.oddpos = x.oddpos, "C03.transpose.labels")
        ELSE {}), "C03.transpose")

FeUnary(ev, pre, exp, lab, p) ==
  Judge(ev, TRUE, LET r == Outs(ev, 1) IN
       F(IsArray(r) /\ Valid(r), p \o ".result_valid") \cup
       (IF IsArray(r) /\ Valid(r) /\ AllExact(r)
        THEN WhySameDen(Den(r), exp, p) \cup F(r.oddpos = lab, p \o ".labels") ELSE {}), p)

FeConj(ev, pre) ==
  LET x == Ins(ev, pre, 1)
      pp == ~(Has(ev.args, "phase_permutation") /\ ev.args.phase_permutation = FALSE)
      pd == Flag(ev.args, "phase_dual")
  IN IF ~pp THEN {} ELSE FeUnary(ev, pre, GConjDenPD(x, pd), LabelConj(x.oddpos), "C10.conj")

FeDagger(ev, pre) ==
  LET x == Ins(ev, pre, 1)
      pd == Flag(ev.args, "phase_dual")
  IN FeUnary(ev, pre, GDaggerDenPD(x, pd), LabelConj(x.oddpos), "C10.dagger")

FeTensordot(ev, pre) ==
  LET a == Ins(ev, pre, 1)
      b == Ins(ev, pre, 2)
      ax == TdAxes(ev.args, Rank(a), Rank(b))
      en == /\ IsArray(b) /\ IsFermi(b)
            /\ (Has(ev.args, "naxes") => ev.args.naxes \in 0..Rank(a) /\ ev.args.naxes <= Rank(b))
            /\ Contractible(a, b, ax[1], ax[2])
            /\ LabelsOK(a.oddpos \o b.oddpos)
            /\ (Has(ev.args, "mode") => ev.args.mode \in {"auto", "fused", "blockwise", "default"})
  IN Judge(ev, en,
       P_Graded(Outs(ev, 1), GContractDen(a, b, ax[1], ax[2]), GContractLabels(a, b), "C03.tensordot")
       \cup F(Flag(ev.args, "preserve_array") => IsArray(Outs(ev, 1)), "C03.tensordot.preserve_array"),
       "C03.tensordot")

FeMatmul(ev, pre) ==
  LET a == Ins(ev, pre, 1)
      b == Ins(ev, pre, 2)
      en == /\ Rank(a) \in {1, 2} /\ Rank(b) \in {1, 2} /\ Contractible(a, b, <<Rank(a)>>, <<1>>)
            /\ LabelsOK(a.oddpos \o b.oddpos)
  IN Judge(ev, en, P_Graded(Outs(ev, 1), GContractDen(a, b, <<Rank(a)>>, <<1>>), GContractLabels(a, b), "C03.matmul"), "C03.matmul")

FeTrace(ev, pre) ==
  LET x == Ins(ev, pre, 1)
      en == Rank(x) = 2 /\ Contractible(x, x, <<1>>, <<2>>)
      E == GEinsumElems(x, {<<1, 2>>}, <<>>)
  IN Judge(ev, en, LET r == Outs(ev, 1) IN
        IF IsScalar(r) THEN (IF r.exact THEN F(r.v = ValAt(E, <<>>), "C03.trace.value") ELSE {})
        ELSE {"C03.trace.type"}, "C03.trace")

FeEinsum(ev, pre) ==
  LET x == Ins(ev, pre, 1)
      lhs == ev.args.lhs
      rhs == ev.args.rhs
      kept == EinsumKept(lhs, rhs)
  IN Judge(ev, EinsumEnabled(x, lhs, rhs),
       P_Graded(Outs(ev, 1), EinsumDen(x, GEinsumElems(x, EinsumPairs(lhs, rhs), kept), kept), x.oddpos, "C03.einsum"),
       "C03.einsum")

FePhase(ev, pre) ==
  LET x == Ins(ev, pre, 1)
      n == Rank(x)
      p == "C09." \o ev.op
  IN CASE ev.op = "phase_flip" ->
            LET axs == NormAxes(ev.args.axs, n) IN FeUnary(ev, pre, GPhaseFlipDen(x, axs), x.oddpos, p)
       [] ev.op = "phase_transpose" ->
            LET perm == IF Flag(ev.args, "axes_none") THEN Reversal(n) ELSE [i \in 1..Len(ev.args.axes) |-> ev.args.axes[i] + 1]
            IN IF IsPermOf(perm, n) THEN FeUnary(ev, pre, GPhaseTransposeDen(x, perm), x.oddpos, p) ELSE {}
       [] ev.op = "phase_global" -> FeUnary(ev, pre, GPhaseGlobalDen(x), x.oddpos, p)
       [] ev.op = "phase_sector" -> FeUnary(ev, pre, GPhaseSectorDen(x, ev.args.sector), x.oddpos, p)
       [] ev.op = "phase_sync" ->
            FeUnary(ev, pre, Den(x), x.oddpos, p)
            \cup (IF ev.outcome = "ok" /\ IsArray(Outs(ev, 1)) /\ AllExact(Outs(ev, 1))
                  THEN F(RawElem(Outs(ev, 1)) = Elem(x), "C09.phase_sync.applied_once")
                       \cup F(Outs(ev, 1).phases = <<>>, "C09.phase_sync.cleared")
                  ELSE {})

FeToDense(ev, pre) ==
  LET x == Ins(ev, pre, 1)
      r == Outs(ev, 1)
  IN Judge(ev, x.blocks # <<>>,
       IF Rank(x) = 0
       THEN (IF IsScalar(r) /\ r.exact /\ AllExact(x) THEN F(r.v = ValAt(Elem(x), <<>>), "C09.to_dense.value") ELSE {})
       ELSE F(IsDense(r) /\ r.shape = DenseShape(x), "C09.to_dense.shape")
            \cup (IF IsDense(r) /\ r.exact /\ AllExact(x) THEN F(DenseNZ(r) = DenseElems(x), "C09.to_dense.value") ELSE {}),
       "C09.to_dense")

FermiFails(ev, pre) ==
  CASE ev.op = "transpose" -> FeTranspose(ev, pre)
    [] ev.op = "T" -> FeUnary(ev, pre, GTransposeDen(Ins(ev, pre, 1), Reversal(Rank(Ins(ev, pre, 1)))), Ins(ev, pre, 1).oddpos, "C03.transpose")
    [] ev.op = "conj" -> FeConj(ev, pre)
    [] ev.op \in {"dagger", "H"} -> FeDagger(ev, pre)
    [] ev.op = "copy" -> FeUnary(ev, pre, Den(Ins(ev, pre, 1)), Ins(ev, pre, 1).oddpos, "C09.copy")
    [] ev.op = "tensordot" -> FeTensordot(ev, pre)
    [] ev.op = "matmul" -> FeMatmul(ev, pre)
    [] ev.op = "trace" -> FeTrace(ev, pre)
    [] ev.op = "einsum" -> FeEinsum(ev, pre)
    [] ev.op \in {"phase_flip", "phase_transpose", "phase_global", "phase_sector", "phase_sync"} -> FePhase(ev, pre)
    [] ev.op = "to_dense" -> FeToDense(ev, pre)
    [] OTHER -> {}


---------------------------------------------------------------------------
\* fuse / unfuse (C05), for abelian and fermionic arrays alike
Groups1(gs) == [g \in 1..Len(gs) |-> [i \in 1..Len(gs[g]) |-> gs[g][i] + 1]]
FuseEv(ev, pre) ==
  LET x == Ins(ev, pre, 1)
      groups == Groups1(ev.args.groups)
      en == FuseEnabled(x, groups)
           /\ (Has(ev.args, "mode") => ev.args.mode \in {"auto", "insert", "concat"})
  IN Judge(ev, en, LET r == Outs(ev, 1) IN
       F(IsArray(r) /\ Valid(r), "C05.fuse.result_valid") \cup
       (IF IsArray(r) /\ Valid(r) /\ AllExact(r) THEN FuseFails(x, groups, r, "C05.fuse")
                                                  \cup F(Labels(r) = Labels(x), "C05.fuse.labels") ELSE {}),
       "C05.fuse")
UnfuseEv(ev, pre) ==
  LET x == Ins(ev, pre, 1)
      ax == NormAx(ev.args.axis, Rank(x))
      en == IsFused(x.ix[ax])
  IN Judge(ev, en, LET r == Outs(ev, 1) IN
       F(IsArray(r) /\ Valid(r), "C05.unfuse.result_valid") \cup
       (IF IsArray(r) /\ Valid(r) /\ AllExact(r) THEN UnfuseFails(x, ax, r, "C05.unfuse")
                                                  \cup F(Labels(r) = Labels(x), "C05.unfuse.labels") ELSE {}),
       "C05.unfuse")


ReshapeEv(ev, pre) ==
  LET x == Ins(ev, pre, 1)
      ns == ev.args.newshape
      \* the round trips the property promises (merge adjacent axes / drop unit axes, and back) must succeed;
      \* any other request may be refused, but whatever is RETURNED for a request of the right total size
      \* must have the requested rank, no axis larger than requested, and the same content
      promised == Flag(ev.args, "back") \/ IsMergeDrop(ShapeOf(x), ns)
      wellposed == ProdSeq(ns) = ProdSeq(ShapeOf(x))
  IN IF ev.outcome = "raise" THEN (IF promised /\ ev.entry # "suite" THEN {"C07.reshape.raises"} ELSE {})
     ELSE IF ~(promised \/ wellposed) THEN {}
     ELSE LET r == Outs(ev, 1) IN
       F(IsArray(r) /\ Valid(r), "C07.reshape.result_valid") \cup
       (IF IsArray(r) /\ Valid(r) /\ AllExact(r) THEN ReshapeFails(x, ns, r, "C07.reshape")
                                                  \cup F(Labels(r) = Labels(x), "C07.reshape.labels") ELSE {})

---------------------------------------------------------------------------
\* relational pseudo-events: the driver names registers, the SPEC compares them
\* args.clause names the clause, args.how the relation
SameBlocks(x, y) ==
  \* every block of x is in y with identical data, extra blocks of y are exactly zero
  /\ x.ix = y.ix /\ x.charge = y.charge
  /\ \A i \in 1..Len(x.blocks) : HasSector(y, x.blocks[i].s)
        /\ BlockOf(y, x.blocks[i].s).shape = x.blocks[i].shape
        /\ BlockOf(y, x.blocks[i].s).data = x.blocks[i].data
        /\ (Cardinality(DtOfArray(x)) = 1 => BlockOf(y, x.blocks[i].s).dt = x.blocks[i].dt)   \* (blocks of mixed types may be promoted to their common type)
  /\ \A j \in 1..Len(y.blocks) : ~HasSector(x, y.blocks[j].s) =>
        \A q \in 1..Len(y.blocks[j].data) : y.blocks[j].data[q] = VZero
SameValue(x, y) ==
  IF IsArray(x) /\ IsArray(y)
  THEN \* the same tensor: elements, charge, directions, labels; tables may differ in charges no element uses
       /\ Elem(x) = Elem(y) /\ x.charge = y.charge /\ Duals(x) = Duals(y)
       /\ Labels(x) = Labels(y) /\ x.kind = y.kind /\ x.sym = y.sym
       /\ \A i \in 1..Rank(x) : \A c \in CmChargeSet(x.ix[i]) \cap CmChargeSet(y.ix[i]) :
             SizeOf(x.ix[i], c) = SizeOf(y.ix[i], c)
  ELSE IF IsScalar(x) /\ IsScalar(y) THEN x.v = y.v
  ELSE IF IsVector(x) /\ IsVector(y) THEN VecElem(x) = VecElem(y)
  ELSE IF IsDense(x) /\ IsDense(y) THEN x.shape = y.shape /\ x.data = y.data
  ELSE IF IsRaise(x) /\ IsRaise(y) THEN TRUE
  ELSE IF IsScalar(x) /\ IsArray(y) THEN Rank(y) = 0 /\ x.v = ValAt(Elem(y), <<>>)
  ELSE IF IsArray(x) /\ IsScalar(y) THEN Rank(x) = 0 /\ y.v = ValAt(Elem(x), <<>>)
  ELSE x = y
ExactVal(x) == IF IsArray(x) THEN AllExact(x) ELSE IF IsVector(x) THEN AllExact(x)
               ELSE IF IsScalar(x) \/ IsDense(x) THEN x.exact ELSE TRUE

PseudoFails(ev, pre) ==
  LET c == ev.args.clause
      x == Ins(ev, pre, 1)
      y == Ins(ev, pre, 2)
  IN CASE ev.args.how = "same" ->
            IF ExactVal(x) /\ ExactVal(y) THEN F(SameValue(x, y), c) ELSE {}
       [] ev.args.how = "obs" -> F(Obs(x) = Obs(y), c)
       [] ev.args.how = "array_equal_den" ->
            IF IsArray(x) /\ IsArray(y) /\ AllExact(x) /\ AllExact(y)
            THEN F(x.ix = y.ix /\ Den(x) = Den(y) /\ Labels(x) = Labels(y), c) ELSE {}
       [] ev.args.how = "same_decoded" ->
            \* equal once every fused leg is read back through its own sub-index table
            IF IsArray(x) /\ IsArray(y) /\ AllExact(x) /\ AllExact(y)
            THEN LET fx == {j \in 1..Rank(x) : IsFused(x.ix[j])}
                     fy == {j \in 1..Rank(y) : IsFused(y.ix[j])}
                 IN F(/\ fx = fy /\ x.charge = y.charge /\ Duals(x) = Duals(y) /\ Labels(x) = Labels(y)
                      /\ AllDecodable(x, fx) /\ AllDecodable(y, fy)
                      /\ DecodedElems(x, fx) = DecodedElems(y, fy), c)
            ELSE {}
       [] ev.args.how = "same_up_to_signs" ->
            \* same index structure, charge, labels and stored magnitudes (fermionic conjugation does not commute with
            \* regrouping legs: the signs of the elements may differ)
            IF IsArray(x) /\ IsArray(y) /\ AllExact(x) /\ AllExact(y)
            THEN F(/\ Valid(x) /\ Valid(y) /\ x.charge = y.charge /\ Len(x.ix) = Len(y.ix)
                   /\ \A i \in 1..Len(x.ix) : PlainIndex(x.ix[i]) = PlainIndex(y.ix[i])
                   /\ {[k |-> e.k, v |-> VAbs2(e.v)] : e \in Elem(x)} = {[k |-> e.k, v |-> VAbs2(e.v)] : e \in Elem(y)}, c)
            ELSE {}
       [] ev.args.how = "array_equal" ->
            \* identical arrays up to the order in which blocks / pending signs are stored
            F(/\ IsArray(x) /\ IsArray(y) /\ x.ix = y.ix /\ x.charge = y.charge /\ x.sym = y.sym
              /\ Len(x.blocks) = Len(y.blocks)
              /\ (IF Cardinality(DtOfArray(x)) <= 1 /\ Cardinality(DtOfArray(y)) <= 1
                  THEN SeqRange(x.blocks) = SeqRange(y.blocks)
                  ELSE \* blocks of mixed element types: the types a strategy picks for the results are not pinned down
                       {[f \in (DOMAIN b) \ {"dt", "h"} |-> b[f]] : b \in SeqRange(x.blocks)}
                         = {[f \in (DOMAIN b) \ {"dt", "h"} |-> b[f]] : b \in SeqRange(y.blocks)})
              /\ SeqRange(x.phases) = SeqRange(y.phases) /\ Labels(x) = Labels(y), c)
       [] ev.args.how = "blocks" -> IF AllExact(x) /\ AllExact(y) THEN F(SameBlocks(x, y) /\ Labels(x) = Labels(y), c) ELSE {}
       [] ev.args.how = "norm2" ->
            \* x : scalar, y : array;  x = sum |y|^2
            IF IsScalar(x) /\ x.exact /\ AllExact(y) THEN F(x.v = <<Norm2(Elem(y)), 0>>, c)
            ELSE IF IsArray(x) /\ Rank(x) = 0 /\ AllExact(x) /\ AllExact(y)
            THEN \* a rank-0 array may still carry an unreduced label word: its number is the reduced one
                 F(LabelsOK(Labels(x)) /\ Remaining(Labels(x)) = <<>>
                   /\ VSgn(ValAt(Elem(x), <<>>), ResolveSign(Labels(x))) = <<Norm2(Elem(y)), 0>>, c)
            ELSE {}
       [] ev.args.how = "true" -> F(x.t = "bool" /\ x.v = TRUE, c)
       [] ev.args.how = "all_or_none" ->
            \* args.present[i]: did the i-th call return (TRUE) or raise (FALSE)
            F(Cardinality({ev.args.present[i] : i \in 1..Len(ev.args.present)}) <= 1, c)
       [] ev.args.how = "bits" -> F(ev.args.bits_equal, c)
       [] ev.args.how = "vec_prefix" ->
            \* x keeps no more than y: every block of x is a prefix of the same block of y
            IF IsVector(x) /\ IsVector(y) /\ AllExact(x) /\ AllExact(y)
            THEN F(\A k \in VecKeys(x) : VecHas(y, k) /\ Len(VecVals(x, k)) <= Len(VecVals(y, k))
                      /\ VecVals(x, k) = SubSeq(VecVals(y, k), 1, Len(VecVals(x, k))), c)
            ELSE {}
       [] ev.args.how = "trunc_error" ->
            \* x : squared error (scalar), y : full values, third register : kept values
            LET z == Ins(ev, pre, 3) IN
            IF IsScalar(x) /\ x.exact /\ IsVector(y) /\ IsVector(z) /\ AllExact(y) /\ AllExact(z)
            THEN F(x.v = <<Norm2(VecElem(y)) - Norm2(VecElem(z)), 0>>, c) ELSE {}
       [] OTHER -> {"X00.unknown_relation"}

---------------------------------------------------------------------------
\* block vectors (C08): arithmetic and elementwise functions act entry by entry
VMap(v, f(_)) == {[k |-> e.k, v |-> f(e.v)] : e \in VecElem(v)}
IsReal(v) == \A e \in VecElem(v) : e.v[2] = 0
VecJudge(ev, exp, p) ==
  IF ev.outcome = "raise" THEN {}
  ELSE LET r == Outs(ev, 1) IN
       IF ~IsVector(r) THEN {p \o ".type"}
       ELSE IF AllExact(r) THEN F(VecElem(r) = exp, p \o ".value") ELSE {}
VecBinary(ev, pre) ==
  LET a == Ins(ev, pre, 1)
      b == Ins(ev, pre, 2)
      Ea == VecElem(a)
      Eb == VecElem(b)
      p == "C08.vector." \o ev.op
      same == IsVector(b) /\ Keys(Ea) = Keys(Eb)
  IN IF ~same \/ ~AllExact(a) \/ ~AllExact(b) THEN {}
     ELSE CASE ev.op \in {"add", "iadd"} -> VecJudge(ev, {[k |-> e.k, v |-> VAdd(e.v, ValAt(Eb, e.k))] : e \in Ea}, p)
            [] ev.op \in {"sub", "isub"} -> VecJudge(ev, {[k |-> e.k, v |-> VSub(e.v, ValAt(Eb, e.k))] : e \in Ea}, p)
            [] ev.op \in {"mul", "imul"} -> VecJudge(ev, {[k |-> e.k, v |-> VMul(e.v, ValAt(Eb, e.k))] : e \in Ea}, p)
            [] ev.op \in {"truediv", "itruediv"} ->
                 \* r * b = a  (exported data divide exactly)
                 IF ev.outcome = "raise" THEN {}
                 ELSE LET r == Outs(ev, 1) IN
                      IF IsVector(r) /\ AllExact(r)
                      THEN F({[k |-> e.k, v |-> VMul(e.v, ValAt(Eb, e.k))] : e \in VecElem(r)} = Ea, p \o ".value") ELSE {}
            [] OTHER -> {}
VecScalar(ev, pre) ==
  LET x == Ins(ev, pre, 1)
      k == ev.args.k
      p == "C08.vector." \o ev.op
  IN IF ~AllExact(x) THEN {}
     ELSE CASE ev.op \in {"smul", "rsmul", "ismul"} -> VecJudge(ev, VMap(x, LAMBDA v : VMul(v, k)), p)
            [] ev.op \in {"sadd", "rsadd"} -> VecJudge(ev, VMap(x, LAMBDA v : VAdd(v, k)), p)
            [] ev.op = "ssub" -> VecJudge(ev, VMap(x, LAMBDA v : VSub(v, k)), p)
            [] ev.op = "rssub" -> VecJudge(ev, VMap(x, LAMBDA v : VSub(k, v)), p)
            [] ev.op = "spow" -> IF k = <<2, 0>> THEN VecJudge(ev, VMap(x, LAMBDA v : VMul(v, v)), p) ELSE {}
            [] ev.op \in {"sdiv", "isdiv"} ->
                 IF ev.outcome = "raise" THEN {}
                 ELSE LET r == Outs(ev, 1) IN
                      IF IsVector(r) /\ AllExact(r) THEN F(VMap(r, LAMBDA v : VMul(v, k)) = VecElem(x), p \o ".value") ELSE {}
            [] OTHER -> {}
VecUnary(ev, pre) ==
  LET x == Ins(ev, pre, 1)
      p == "C08.vector." \o ev.op
      r == Outs(ev, 1)
  IN IF ~AllExact(x) THEN {}
     ELSE CASE ev.op = "neg" -> VecJudge(ev, VMap(x, VNeg), p)
            [] ev.op = "copy" -> VecJudge(ev, VecElem(x), p)
            [] ev.op = "abs" -> IF IsReal(x) THEN VecJudge(ev, VMap(x, LAMBDA v : <<IF v[1] < 0 THEN 0 - v[1] ELSE v[1], 0>>), p) ELSE {}
            [] ev.op = "sqrt" -> IF IsReal(x) /\ \A e \in VecElem(x) : IsSquare(e.v[1])
                                 THEN VecJudge(ev, VMap(x, LAMBDA v : <<ISqrt(v[1]), 0>>), p) ELSE {}
            [] ev.op = "sum" -> IF ev.outcome = "ok" /\ IsScalar(r) /\ r.exact THEN F(r.v = SumOf(VecElem(x)), p \o ".value") ELSE {}
            [] ev.op = "max" -> IF ev.outcome = "ok" /\ IsScalar(r) /\ r.exact /\ IsReal(x) /\ VecElem(x) # {}
                                THEN F(r.v = <<Max({e.v[1] : e \in VecElem(x)}), 0>>, p \o ".value") ELSE {}
            [] ev.op = "min" -> IF ev.outcome = "ok" /\ IsScalar(r) /\ r.exact /\ IsReal(x) /\ VecElem(x) # {}
                                THEN F(r.v = <<Min({e.v[1] : e \in VecElem(x)}), 0>>, p \o ".value") ELSE {}
            [] ev.op = "norm_sq" -> IF ev.outcome = "ok" /\ IsScalar(r) /\ r.exact THEN F(r.v = <<Norm2(VecElem(x)), 0>>, p \o ".value") ELSE {}
            [] ev.op = "to_dense" ->
                 \* concatenation of the blocks in ascending order of their keys
                 IF ev.outcome = "ok" /\ IsDense(r) /\ r.exact
                 THEN LET off(c) == SumSeqInt([i \in 1..Len(x.blocks) |-> IF ChargeLT(x.blocks[i].c, c) THEN x.blocks[i].shape[1] ELSE 0])
                      IN F({[k |-> <<off(e.k[1]) + e.k[2]>>, v |-> e.v] : e \in NZ(VecElem(x))} = DenseNZ(r), p \o ".value")
                 ELSE {}
            [] OTHER -> {}
VectorFails(ev, pre) ==
  CASE ev.op \in {"add", "sub", "mul", "truediv", "iadd", "isub", "imul", "itruediv"} -> VecBinary(ev, pre)
    [] ev.op \in {"smul", "rsmul", "ismul", "sadd", "rsadd", "ssub", "rssub", "spow", "sdiv", "isdiv"} -> VecScalar(ev, pre)
    [] OTHER -> VecUnary(ev, pre)

\* zero-preserving elementwise functions and reductions of abelian arrays
AbElementwise(ev, pre) ==
  LET x == Ins(ev, pre, 1)
      E == Elem(x)
      real == \A e \in E : e.v[2] = 0
      p == "C08." \o ev.op
      r == Outs(ev, 1)
  IN IF ev.outcome = "raise" \/ ~AllExact(x) THEN {}
     ELSE CASE ev.op = "abs" ->
                 IF real /\ IsArray(r) /\ Valid(r) /\ AllExact(r)
                 THEN WhySameDen(Den(r), [E |-> {[k |-> e.k, v |-> <<IF e.v[1] < 0 THEN 0 - e.v[1] ELSE e.v[1], 0>>] : e \in E},
                                          ix |-> Den(x).ix, charge |-> x.charge], p) ELSE {}
            [] ev.op = "sqrt" ->
                 IF real /\ (\A e \in E : IsSquare(e.v[1])) /\ IsArray(r) /\ Valid(r) /\ AllExact(r)
                 THEN WhySameDen(Den(r), [E |-> {[k |-> e.k, v |-> <<ISqrt(e.v[1]), 0>>] : e \in E},
                                          ix |-> Den(x).ix, charge |-> x.charge], p) ELSE {}
            [] ev.op = "norm_sq" -> IF IsScalar(r) /\ r.exact THEN F(r.v = <<Norm2(E), 0>>, p \o ".value") ELSE {}
            [] OTHER -> {}


AbelianFails(ev, pre) ==
  CASE ev.op = "transpose" -> AbTranspose(ev, pre)
    [] ev.op = "T" -> AbUnary(ev, pre, TransposeDen(Ins(ev, pre, 1), Reversal(Rank(Ins(ev, pre, 1)))), "C08.transpose")
    [] ev.op = "conj" -> AbUnary(ev, pre, ConjDen(Ins(ev, pre, 1)), "C08.conj")
    [] ev.op \in {"dagger", "H"} -> AbUnary(ev, pre, DaggerDen(Ins(ev, pre, 1)), "C08.dagger")
    [] ev.op = "neg" -> AbUnary(ev, pre, NegDen(Ins(ev, pre, 1)), "C08.neg")
    [] ev.op = "copy" -> AbUnary(ev, pre, Den(Ins(ev, pre, 1)), "C08.copy")
    [] ev.op = "squeeze" -> AbSqueeze(ev, pre)
    [] ev.op = "expand_dims" -> AbExpand(ev, pre)
    [] ev.op = "tensordot" -> AbTensordot(ev, pre)
    [] ev.op = "matmul" -> AbMatmul(ev, pre)
    [] ev.op = "trace" -> AbTrace(ev, pre)
    [] ev.op = "einsum" -> AbEinsum(ev, pre)
    [] ev.op \in {"add", "sub", "mul", "iadd", "isub", "imul"} -> AbBinary(ev, pre)
    [] ev.op \in {"smul", "rsmul", "sdiv", "ismul", "isdiv"} -> AbScalarOp(ev, pre)
    [] ev.op = "multiply_diagonal" -> AbMulDiag(ev, pre)
    [] ev.op \in {"sum", "norm"} -> AbReduce(ev, pre)
    [] ev.op = "to_dense" -> AbToDense(ev, pre)
    [] ev.op \in {"abs", "sqrt", "norm_sq"} -> AbElementwise(ev, pre)
    [] OTHER -> {}



---------------------------------------------------------------------------
\* C17: group laws evaluated directly on the recorded answers of the real symmetry
\* objects (L1), and agreement with the Charges module (reported as drift, L2)
Idx(t, c) == CHOOSE i \in 1..Len(t.charges) : t.charges[i] = c
InBox(t, c) == \E i \in 1..Len(t.charges) : t.charges[i] = c
PairsFails(t) ==
  LET n == Len(t.charges)
      I == 1..n
  IN F(\A i, j \in I : t.comb[i][j] = t.comb[j][i], "C17.commutative")
     \cup F(\A i \in I : InBox(t, t.ident) /\ t.comb[Idx(t, t.ident)][i] = t.charges[i] /\ t.comb1[i] = t.charges[i], "C17.identity")
     \cup F(\A i \in I : t.neg_valid[i], "C17.negation_valid")
     \cup F(\A i \in I : t.comb_neg[i] = t.ident, "C17.inverse")
     \cup F(\A i \in I : InBox(t, t.neg[i]) => t.comb[i][Idx(t, t.neg[i])] = t.ident, "C17.inverse.table")
     \cup F(\A i, j \in I : t.par_comb[i][j] = (t.par[i] + t.par[j]) % 2, "C17.parity_homomorphism")
     \cup F(\A i \in I : t.par[i] \in {0, 1} /\ t.valid[i], "C17.parity_range")
     \cup F(\A i \in I : t.sign_nd[i] = t.charges[i], "C17.sign_identity")
PairsDrift(t) ==
  LET I == 1..Len(t.charges) IN
  F(\A i, j \in I : t.comb[i][j] = Combine(t.sym, t.charges[i], t.charges[j]), "L2.combine")
  \cup F(\A i \in I : t.neg[i] = Neg(t.sym, t.charges[i]), "L2.neg")
  \cup F(\A i \in I : t.par[i] = Parity(t.sym, t.charges[i]), "L2.parity")
  \cup F(t.ident = Zero, "L2.identity")
AssocFails(t) ==
  LET I == 1..Len(t.charges) IN
  F(\A i, j \in I : t.l[i][j] = t.r[i][j], "C17.associative")
  \cup F(\A i, j \in I : t.v[i][j] = t.l[i][j], "C17.associative.varargs")
AssocDrift(t) ==
  LET I == 1..Len(t.charges) IN
  F(\A i, j \in I : t.l[i][j] = Combine(t.sym, Combine(t.sym, t.a, t.charges[i]), t.charges[j]), "L2.combine3")

\* all tuples over a sequence of charge lists
RECURSIVE Tuples(_)
Tuples(lists) ==
  IF lists = <<>> THEN {<<>>}
  ELSE {<<c>> \o rest : c \in SeqRange(Head(lists)), rest \in Tuples(Tail(lists))}
SectorsFails(t, ev) ==
  LET duals == [i \in 1..Len(t.ix) |-> t.ix[i].dual]
      want == {s \in Tuples([i \in 1..Len(t.ix) |-> t.ix[i].charges]) : SignedCombine(t.sym, s, duals) = t.charge}
      got == t.sectors
  IN IF ev.outcome = "raise" THEN {"C17.sectors.raises"}
     ELSE F(\A i, j \in 1..Len(got) : i # j => got[i] # got[j], "C17.sectors.repeated")
          \cup F(SeqRange(got) \subseteq want, "C17.sectors.extra")
          \cup F(want \subseteq SeqRange(got), "C17.sectors.missing")
TableFails(ev) ==
  LET t == ev.regs.tab IN
  CASE ev.op = "group_pairs" -> PairsFails(t)
    [] ev.op = "group_assoc" -> AssocFails(t)
    [] ev.op = "sectors" -> SectorsFails(t, ev)
TableDrift(ev) ==
  LET t == ev.regs.tab IN
  CASE ev.op = "group_pairs" -> PairsDrift(t)
    [] ev.op = "group_assoc" -> AssocDrift(t)
    [] OTHER -> {}


---------------------------------------------------------------------------
\* C16: constructors.  from_dense groups the positions of every axis by their label,
\* keeping their relative order (a stable sort by charge), and keeps the conserving sectors
FromDenseElems(d, labels, sym, duals, charge) ==
  { [k |-> [a \in 1..Len(e.k) |-> <<labels[a][e.k[a] + 1], RankInLabel(labels[a], e.k[a] + 1)>>], v |-> e.v] :
      e \in {f \in DenseNZ(d) :
               SignedCombine(sym, [a \in 1..Len(f.k) |-> labels[a][f.k[a] + 1]], duals) = charge} }
FromDenseEv(ev, pre) ==
  LET d == Ins(ev, pre, 1)
      a == ev.args
      charge == IF Flag(a, "charge_given") THEN a.charge ELSE Zero
      en == /\ IsDense(d) /\ d.exact /\ Len(a.labels) = Len(d.shape) /\ Len(a.duals) = Len(d.shape)
            /\ \A i \in 1..Len(d.shape) : Len(a.labels[i]) = d.shape[i]
            /\ (a.cls = "dynamic" => Flag(a, "sym_given"))
  IN Judge(ev, en, LET r == Outs(ev, 1) IN
       F(IsArray(r) /\ Valid(r), "C16.from_dense.result_valid") \cup
       (IF IsArray(r) /\ Valid(r) /\ AllExact(r)
        THEN F(Elem(r) = FromDenseElems(d, a.labels, a.sym, a.duals, charge), "C16.from_dense.value")
             \cup F(r.charge = charge /\ Duals(r) = a.duals /\ r.sym = a.sym /\ r.kind = a.kind, "C16.from_dense.attributes")
             \cup F(\A i \in 1..Rank(r) : \A c \in SeqRange(a.labels[i]) :
                       CmHas(r.ix[i], c) /\ SizeOf(r.ix[i], c) = CountLabel(a.labels[i], c), "C16.from_dense.tables")
        ELSE {}), "C16.from_dense")
\* the other constructors take a template t: the result must be the same array
ConstructEv(ev, pre) ==
  LET t == Ins(ev, pre, 1)
      a == ev.args
      \* does every table charge occur in a stored sector?  (otherwise blocks alone do not describe t)
      covered == \A i \in 1..Rank(t) : \A c \in CmChargeSet(t.ix[i]) : \E b \in 1..Len(t.blocks) : t.blocks[b].s[i] = c
      defaulted == ~Flag(a, "charge_given")
      \* documented defaults: identity charge; "inferred from the first sector" when blocks are given to the class itself
      charge == IF ~defaulted THEN a.charge
                ELSE IF ev.op = "construct" /\ t.blocks # <<>> /\ ~(Has(a, "with_blocks") /\ a.with_blocks = FALSE) THEN t.charge
                ELSE Zero
      en == /\ IsArray(t) /\ Valid(t)
            /\ (a.cls = "dynamic" => Flag(a, "sym_given"))
            /\ (ev.op = "from_blocks" => covered /\ t.blocks # <<>>)
            /\ charge = t.charge
            /\ (a.kind = "fermionic" /\ Parity(t.sym, t.charge) = 1 => Has(a, "oddpos"))
      p == "C16." \o ev.op
  IN Judge(ev, en, LET r == Outs(ev, 1) IN
       F(IsArray(r) /\ Valid(r), p \o ".result_valid") \cup
       (IF IsArray(r) /\ Valid(r) /\ AllExact(r) /\ AllExact(t)
        THEN (IF Has(a, "with_blocks") /\ a.with_blocks = FALSE
              THEN F(r.blocks = <<>> /\ Den(r).ix = Den(t).ix /\ r.charge = charge, p \o ".value")
              ELSE WhySameDen(Den(r), Den(t), p))
             \cup F(r.sym = a.sym /\ r.kind = a.kind /\ r.cls = a.cls, p \o ".class")
        ELSE {}), p)


---------------------------------------------------------------------------
\* decompositions (C11, C12) and truncation (C13)
IsObs(v) == "t" \in DOMAIN v /\ v.t = "obs"
IsNone(v) == "t" \in DOMAIN v /\ v.t = "none"
ObserveEv(ev) ==
  LET o == Outs(ev, 1)
      p == IF ev.args.what \in {"spectrum", "eigvals", "solution"} THEN "C12.observed." ELSE "C11.observed."
  IN IF ev.outcome = "raise" THEN {p \o "raises"}
     ELSE {p \o f : f \in {g \in DOMAIN o.req : o.req[g] = FALSE}}

MatrixOK(x) == IsArray(x) /\ Rank(x) = 2 /\ Valid(x)
FactorsValid(fs, p) == F(\A i \in 1..Len(fs) : IsArray(fs[i]) /\ Valid(fs[i]), p \o ".factors_valid")

\* x = a . b over the last axis of a and the first of b, decided by the spec itself on the recorded factors
\* (exact factors only; float factors are judged through the logged observations)
BlockEntry(b, i, j) == b.data[Ravel(<<i - 1, j - 1>>, b.shape) + 1]
ProductDefined(x, a, b) ==
  /\ IsArray(a) /\ IsArray(b) /\ Valid(a) /\ Valid(b) /\ AllExact(a) /\ AllExact(b) /\ AllExact(x)
  /\ Rank(b) >= 1 /\ Rank(a) >= 1 /\ Contractible(a, b, <<Rank(a)>>, <<1>>)
  /\ (IsFermi(x) => IsFermi(a) /\ IsFermi(b) /\ LabelsOK(a.oddpos \o b.oddpos) /\ LabelsOK(x.oddpos))
\* <<elements of x, elements of a . b>> brought to the same label order (fermionic: both reduced)
ProductPair(x, a, b) ==
  IF IsFermi(x)
  THEN LET lab == GContractLabels(a, b) IN
       <<FlipDen(Den(x), ResolveSign(x.oddpos)).E,
         FlipDen(GContractDen(a, b, <<Rank(a)>>, <<1>>),
                 ResolveSign(lab) * ReorderSign(Remaining(lab), Remaining(x.oddpos))).E>>
  ELSE <<Elem(x), ContractElems(Elem(a), Elem(b), <<Rank(a)>>, <<1>>)>>
ProductIs(x, a, b, p) ==
  IF ~ProductDefined(x, a, b) THEN {}
  ELSE IF IsFermi(x) /\ ~SameLabelSet(Remaining(x.oddpos), Remaining(GContractLabels(a, b))) THEN {p \o ".labels"}
  ELSE LET pr == ProductPair(x, a, b) IN F(pr[1] = pr[2], p)
\* squared norm of the difference of two element sets
DiffNorm2(E1, E2) ==
  LET K == {e.k : e \in E1 \cup E2} IN
  FoldSet(LAMBDA k, acc : acc + VAbs2(VSub(ValAt(E1, k), ValAt(E2, k))), 0, K)
UpperTriangular(r, stabilized, p) ==
  IF ~(IsArray(r) /\ Rank(r) = 2 /\ AllExact(r)) THEN {}
  ELSE F(\A k \in 1..Len(r.blocks) : LET b == r.blocks[k] IN
           \A i \in 1..b.shape[1] : \A j \in 1..b.shape[2] : i > j => BlockEntry(b, i, j) = VZero, p \o ".r_upper")
       \cup (IF stabilized
             THEN F(\A k \in 1..Len(r.blocks) : LET b == r.blocks[k] IN
                      \A i \in 1..MinI(b.shape[1], b.shape[2]) : BlockEntry(b, i, i)[1] >= 0 /\ BlockEntry(b, i, i)[2] = 0,
                    p \o ".r_diag_nonneg")
             ELSE {})
\* columns (cols = TRUE) or rows of every stored block are orthonormal
Orthonormal(f, cols, p) ==
  IF ~(IsArray(f) /\ Rank(f) = 2 /\ AllExact(f)) THEN {}
  ELSE F(\A k \in 1..Len(f.blocks) :
           LET b == f.blocks[k]
               n == IF cols THEN b.shape[2] ELSE b.shape[1]
               m == IF cols THEN b.shape[1] ELSE b.shape[2]
               e(t, i) == IF cols THEN BlockEntry(b, t, i) ELSE BlockEntry(b, i, t)
           IN \A i, j \in 1..n :
                SumSeqV([t \in 1..m |-> VMul(VConj(e(t, i)), e(t, j))]) = (IF i = j THEN VOne ELSE VZero), p)

QrEv(ev, pre) ==
  LET x == Ins(ev, pre, 1) IN
  Judge(ev, MatrixOK(x),
    LET q == Outs(ev, 1)
        r == Outs(ev, 2)
    IN FactorsValid(<<q, r>>, "C11.qr")
       \cup (IF IsArray(q) /\ IsArray(r) THEN FactorStructure(x, q, r, "C11.qr") ELSE {"C11.qr.type"})
       \cup (IF IsArray(q) /\ IsFermi(x) THEN F(Labels(q) = Labels(x) /\ Labels(r) = <<>>, "C11.qr.labels") ELSE {})
       \cup ProductIs(x, q, r, "C11.qr.product") \cup Orthonormal(q, TRUE, "C11.qr.isometry")
       \cup UpperTriangular(r, Flag(ev.args, "stabilized"), "C11.qr"),
    "C11.qr")

SvdEv(ev, pre) ==
  LET x == Ins(ev, pre, 1) IN
  Judge(ev, MatrixOK(x),
    LET u == Outs(ev, 1)
        s == Outs(ev, 2)
        vh == Outs(ev, 3)
        D == DenseElems(x)
    IN FactorsValid(<<u, vh>>, "C11.svd")
       \cup (IF IsArray(u) /\ IsArray(vh) /\ IsVector(s)
             THEN FactorStructure(x, u, vh, "C11.svd") \cup ValuesStructure(x, s, "C11.svd", FALSE)
                  \cup (IF AllExact(s)
                        THEN F(\A i \in 1..Len(s.blocks) : NonIncreasing(s.blocks[i].data)
                                  /\ \A j \in 1..Len(s.blocks[i].data) : s.blocks[i].data[j][1] >= 0 /\ s.blocks[i].data[j][2] = 0,
                               "C11.svd.values_sorted_nonneg")
                             \cup (IF AllExact(x) /\ IsRealE(D) /\ IsMonomial(D)
                                   THEN F(NZVecBag(s) = MagBagReal(D), "C12.svd.spectrum_equals_dense") ELSE {})
                        ELSE {})
             ELSE {"C11.svd.type"})
       \cup Orthonormal(u, TRUE, "C11.svd.u_isometry") \cup Orthonormal(vh, FALSE, "C11.svd.vh_isometry")
       \cup (IF IsArray(u) /\ IsArray(vh) /\ IsVector(s) /\ AllExact(s) /\ AllExact(vh) /\ Valid(vh) /\ MulDiagEnabled(vh, s, 1)
             THEN ProductIs(x, u, IMulDiag(vh, s, 1), "C11.svd.product") ELSE {}),
    "C11.svd")

Hermitian(a) ==
  /\ PlainIndex(a.ix[2]) = [dual |-> ~a.ix[1].dual, cm |-> a.ix[1].cm]
  /\ LET E == Elem(a) IN \A e \in E : ValAt(E, <<e.k[2], e.k[1]>>) = VConj(e.v)
EighEv(ev, pre) ==
  LET a == Ins(ev, pre, 1)
      en == MatrixOK(a) /\ a.charge = Zero /\ AllExact(a) /\ Hermitian(a)
  IN Judge(ev, en,
    LET w == Outs(ev, 1)
        v == Outs(ev, 2)
        D == DenseElems(a)
    IN FactorsValid(<<v>>, "C11.eigh")
       \cup (IF IsArray(v) /\ IsVector(w)
             THEN F(SectorSet(v) = SectorSet(a) /\ Den(v).ix = Den(a).ix /\ v.charge = a.charge, "C11.eigh.vector_structure")
                  \cup ValuesStructure(a, w, "C11.eigh", TRUE)
                  \cup F(\A i \in 1..Len(a.blocks) : HasSector(v, a.blocks[i].s) => BlockOf(v, a.blocks[i].s).shape = a.blocks[i].shape,
                         "C11.eigh.vector_shapes")
                  \cup (IF AllExact(w) /\ IsRealE(D) /\ \A e \in D : e.k[1] = e.k[2]
                        THEN \* diagonal family: the eigenvalues of the stored sectors are the diagonal entries; fermionic: with the
                             \* sign the reconstruction v diag(w) v+ = a forces on odd charges when the second leg is a ket
                             F(LET sg(e) == IF IsFermi(a) /\ ~a.ix[2].dual /\ Parity(a.sym, e.k[2][1]) = 1 THEN -1 ELSE 1
                                   diag == {<<e.k, e.v[1] * sg(e)>> : e \in Elem(a)}     \* labelled coordinates <<charge, position>>
                                   zeros == SumSeqInt([i \in 1..Len(a.blocks) |-> a.blocks[i].shape[1]]) - Cardinality(D)
                               IN /\ NZVecBag(w) = {<<m, Cardinality({d \in diag : d[2] = m})>> : m \in {d[2] : d \in diag}}
                                  /\ Cardinality({e \in VecElem(w) : e.v = VZero}) = zeros,
                               "C12.eigh.spectrum_equals_dense")
                        ELSE {})
             ELSE {"C11.eigh.type"})
       \cup Orthonormal(v, TRUE, "C11.eigh.unitary")
       \cup (IF IsArray(v) /\ IsVector(w) /\ ~IsFermi(a) /\ AllExact(w) /\ AllExact(v) /\ Valid(v) /\ MulDiagEnabled(v, w, 2)
             THEN ProductIs(a, IMulDiag(v, w, 2), IDagger(v), "C11.eigh.product") ELSE {}),
    "C11.eigh")

SolveEv(ev, pre) ==
  LET a == Ins(ev, pre, 1)
      b == Ins(ev, pre, 2)
      en == /\ MatrixOK(a) /\ IsArray(b) /\ Rank(b) = 1 /\ Valid(b) /\ a.sym = b.sym /\ a.kind = b.kind
            /\ PlainIndex(b.ix[1]).dual = a.ix[1].dual
            /\ \A i \in 1..Len(a.blocks) : a.blocks[i].shape[1] = a.blocks[i].shape[2]
            /\ \A c \in CmChargeSet(a.ix[1]) \cap CmChargeSet(b.ix[1]) : SizeOf(a.ix[1], c) = SizeOf(b.ix[1], c)
  IN Judge(ev, en,
    LET x == Outs(ev, 1) IN
      FactorsValid(<<x>>, "C11.solve")
      \cup (IF IsArray(x) /\ Rank(x) = 1
            THEN F(x.charge = Combine(a.sym, b.charge, Neg(a.sym, a.charge)), "C11.solve.charge")
                 \cup F(x.ix[1].dual = ~a.ix[2].dual /\ CmSet(x.ix[1]) \subseteq CmSet(a.ix[2]), "C11.solve.index")
            ELSE {"C11.solve.type"})
      \cup ProductIs(b, a, x, "C11.solve.product"),
    "C11.solve")

\* ---- truncation ----
CutoffPos(a) == Has(a, "cutoff") /\ a.cutoff[1] > 0
MaxBond(a) == IF Has(a, "max_bond") THEN a.max_bond ELSE -1
CutMode(a) == IF Has(a, "cutoff_mode") THEN a.cutoff_mode ELSE 4
\* all singular values of the block with column charge c, descending, zeros included
FullDesc(x, c) ==
  LET b == CHOOSE bb \in SeqRange(x.blocks) : bb.s[2] = c
      nz == DescSeq({a[2] : a \in {sl \in Slots(x) : sl[1] = c}})
      k == MinI(b.shape[1], b.shape[2])
  IN nz \o [i \in 1..(k - Len(nz)) |-> 0]
TruncEv(ev, pre) ==
  LET x == Ins(ev, pre, 1)
      a == ev.args
      en == MatrixOK(x) /\ CutMode(a) \in 1..6
  IN Judge(ev, en,
    LET U == Outs(ev, 1)
        s == Outs(ev, 2)
        VH == Outs(ev, 3)
        D == DenseElems(x)
        family == AllExact(x) /\ IsRealE(D) /\ IsMonomial(D) /\ DistinctSpectrum(x)
        S == Slots(x)
        cols == {b.s[2] : b \in SeqRange(x.blocks)}
    IN FactorsValid(<<U, VH>>, "C13")
       \cup (IF ~(IsArray(U) /\ IsArray(VH) /\ Valid(U) /\ Valid(VH)) THEN {}
             ELSE F(Rank(U) = 2 /\ Rank(VH) = 2 /\ VH.ix[1].dual = ~U.ix[2].dual /\ VH.ix[1].cm = U.ix[2].cm, "C13.bond_conjugate_pair")
               \cup F(\A i \in 1..Len(U.blocks) : CmHas(U.ix[2], U.blocks[i].s[2])
                         /\ U.blocks[i].shape[2] = SizeOf(U.ix[2], U.blocks[i].s[2]), "C13.tables_match_blocks")
               \cup F(CmChargeSet(U.ix[2]) = {U.blocks[i].s[2] : i \in 1..Len(U.blocks)}
                      /\ {VH.blocks[i].s[1] : i \in 1..Len(VH.blocks)} = CmChargeSet(U.ix[2]), "C13.no_empty_charges")
               \cup (IF IsVector(s) THEN F(VecKeys(s) = CmChargeSet(U.ix[2])
                                             /\ \A c \in VecKeys(s) : VecBlock(s, c).shape = <<SizeOf(U.ix[2], c)>>, "C13.values_match_bond")
                     ELSE F(IsNone(s), "C13.values_type"))
               \cup (IF ~family THEN {}
                     ELSE IF CutoffPos(a)
                     THEN LET K == KeptSlots(S, a.cutoff[1], a.cutoff[2], CutMode(a), MaxBond(a))
                              want == {[c |-> c, d |-> Cardinality({k \in K : k[1] = c})] : c \in {k[1] : k \in K}}
                          IN F(CmSet(U.ix[2]) = want, "C13.kept_count")
                             \cup (IF IsVector(s) /\ AllExact(s)
                                   THEN F(\A c \in VecKeys(s) : [i \in 1..Len(VecVals(s, c)) |-> VecVals(s, c)[i][1]]
                                                = DescSeq({k[2] : k \in {kk \in K : kk[1] = c}}), "C13.kept_values")
                                        \cup F(\A e \in VecElem(s) : \A sl \in S :
                                                 (~\E f \in VecElem(s) : f.k[1] = sl[1] /\ f.v[1] = sl[2]) => e.v[1] >= sl[2],
                                               "C13.kept_ge_discarded")
                                   ELSE {})
                     ELSE \* no cutoff: bond = limit (or everything), a prefix of each charge's descending values
                          LET total == SumSeqInt([i \in 1..Len(x.blocks) |-> MinI(x.blocks[i].shape[1], x.blocks[i].shape[2])])
                              lim == IF MaxBond(a) > 0 /\ MaxBond(a) < total THEN MaxBond(a) ELSE total
                          IN F(SumSeqInt([i \in 1..Len(U.ix[2].cm) |-> U.ix[2].cm[i].d]) = lim, "C13.nocutoff.bond_equals_limit")
                             \cup (IF IsVector(s) /\ AllExact(s)
                                   THEN F(\A c \in VecKeys(s) : c \in cols
                                             /\ [i \in 1..Len(VecVals(s, c)) |-> VecVals(s, c)[i][1]]
                                                 = SubSeq(FullDesc(x, c), 1, Len(VecVals(s, c))), "C13.nocutoff.largest_within_charge")
                                   ELSE {}))
               \* the product of the recorded factors, computed by the spec: the kept part of the input, and
               \* (values not absorbed) squared error = squared weight that is not kept
               \cup (IF ~family \/ ~AllExact(U) \/ ~AllExact(VH) \/ ~(IsNone(s) \/ (IsVector(s) /\ AllExact(s))) THEN {}
                     ELSE LET R == IF IsVector(s) /\ MulDiagEnabled(VH, s, 1) THEN IMulDiag(VH, s, 1) ELSE VH IN
                          IF ~ProductDefined(x, U, R) \/ (IsFermi(x) /\ ~SameLabelSet(Remaining(x.oddpos), Remaining(GContractLabels(U, R)))) THEN {}
                          ELSE LET pr == ProductPair(x, U, R) IN
                               F(pr[2] \subseteq pr[1], "C13.product_is_kept_part")
                               \cup (IF IsVector(s)
                                     THEN F(DiffNorm2(pr[1], pr[2]) = Norm2(pr[1]) - Norm2(VecElem(s)), "C13.error_is_discarded_weight.spec")
                                          \cup Orthonormal(U, TRUE, "C13.u_isometry") \cup Orthonormal(VH, FALSE, "C13.vh_isometry")
                                     ELSE {}))),
    "C13.svd_truncated")

LinalgFails(ev, pre) ==
  CASE ev.op = "qr" -> QrEv(ev, pre)
    [] ev.op = "svd" -> SvdEv(ev, pre)
    [] ev.op = "eigh" -> EighEv(ev, pre)
    [] ev.op = "solve" -> SolveEv(ev, pre)
    [] ev.op = "svd_truncated" -> TruncEv(ev, pre)


---------------------------------------------------------------------------
\* C18 / C19: local operators and edge Hamiltonians (events of the special drivers)
CoordKey(labels, nsites, st) == [j \in 1..Len(st) |-> StateCoord(labels[((j - 1) % nsites) + 1], st[j] + 1)]
LocalElementsEv(ev) ==
  LET t == ev.regs.tab
      got == NZ({[k |-> t.entries[i].k, v |-> t.entries[i].v] : i \in 1..Len(t.entries)})
  IN IF ev.outcome = "raise" THEN {"C18.elements.raises"}
     ELSE F(got = Elements(t.terms, t.bases), "C18.elements")
          \cup F(\A i, j \in 1..Len(t.entries) : i # j => t.entries[i].k # t.entries[j].k, "C18.elements.unique")
\* the operator array: legs (out_1..out_n, in_1..in_n), duals FALSE.. TRUE..
ExpectedOperatorElems(a) ==
  LET n == Len(a.bases)
      duals == [j \in 1..(2 * n) |-> j > n]
  IN {e \in {[k |-> CoordKey(a.labels, n, f.k), v |-> f.v] : f \in Elements(a.terms, a.bases)} :
        SignedCombine(a.sym, KeySector(e.k), duals) = Zero}
LocalArrayEv(ev) ==
  LET a == ev.args
      g == Outs(ev, 1)
      n == Len(a.bases)
      p == IF ev.op = "ham_edge" THEN "C19.edge_array" ELSE "C18.array"
  IN IF ev.outcome = "raise" THEN {p \o ".raises"}
     ELSE F(IsArray(g) /\ Valid(g) /\ IsFermi(g), p \o ".valid")
          \cup (IF IsArray(g) /\ Valid(g) /\ AllExact(g)
                THEN F(Elem(g) = ExpectedOperatorElems(a), p \o ".value")
                     \cup F(Duals(g) = [j \in 1..(2 * n) |-> j > n] /\ g.charge = Zero /\ g.sym = a.sym, p \o ".attributes")
                ELSE {})
\* phi = tensordot(G, psi) for the basis tensor psi = |in>
OpApplyEv(ev, pre) ==
  LET a == ev.args
      phi == Ins(ev, pre, 1)
      psi == Ins(ev, pre, 2)
      n == Len(a.bases)
      instate == [s \in 1..n |-> a.instate[s] + 1]
      inkey == [s \in 1..n |-> StateCoord(a.labels[s], instate[s])]
      en == IsArray(psi) /\ AllExact(psi) /\ Elem(psi) = {[k |-> inkey, v |-> VOne]}
      want == {[k |-> [s \in 1..n |-> StateCoord(a.labels[s], e.k[s])], v |-> e.v] : e \in MapColumn(a.terms, a.bases, instate)}
  IN IF ~en THEN {}
     ELSE IF IsArray(phi) /\ AllExact(phi) THEN F(Elem(phi) = want, "C18.map_is_operator")
     ELSE IF IsScalar(phi) THEN F(n = 0, "C18.map_is_operator.type")
     ELSE {}

\* ---- Hubbard models on a graph (C19) ----
Degree(edges, site) == Cardinality({i \in 1..Len(edges) : edges[i][1] = site \/ edges[i][2] = site})
\* modes of the two sites of an edge, ordered like the library's labels: ad < au < bd < bu ; a < b
Cr(m) == [m |-> m, cr |-> TRUE]
An(m) == [m |-> m, cr |-> FALSE]
Term(c, ops) == [c |-> <<c, 0>>, ops |-> ops]
\* all coefficients arrive multiplied out: on-site ones are already divided by the spec's own degree
SpinfulTerms(t, Ua, Ub, mua, mub) ==
  LET ad == 1  au == 2  bd == 3  bu == 4 IN
  << Term(0 - t, <<Cr(au), An(bu)>>), Term(0 - t, <<Cr(bu), An(au)>>),
     Term(0 - t, <<Cr(ad), An(bd)>>), Term(0 - t, <<Cr(bd), An(ad)>>),
     Term(Ua, <<Cr(au), An(au), Cr(ad), An(ad)>>), Term(Ub, <<Cr(bu), An(bu), Cr(bd), An(bd)>>),
     Term(0 - mua, <<Cr(au), An(au)>>), Term(0 - mua, <<Cr(ad), An(ad)>>),
     Term(0 - mub, <<Cr(bu), An(bu)>>), Term(0 - mub, <<Cr(bd), An(bd)>>) >>
SpinfulBases ==
  << << <<>>, <<Cr(1)>>, <<Cr(2)>>, <<Cr(2), Cr(1)>> >>,
     << <<>>, <<Cr(3)>>, <<Cr(4)>>, <<Cr(4), Cr(3)>> >> >>
SpinlessTerms(t, V, mua, mub) ==
  << Term(0 - t, <<Cr(1), An(2)>>), Term(0 - t, <<Cr(2), An(1)>>),
     Term(V, <<Cr(1), An(1), Cr(2), An(2)>>),
     Term(0 - mua, <<Cr(1), An(1)>>), Term(0 - mub, <<Cr(2), An(2)>>) >>
SpinlessBases == << << <<>>, <<Cr(1)>> >>, << <<>>, <<Cr(2)>> >> >>
\* charges of the local basis states: occupation (parity / number / (n_up, n_down))
SpinfulLabels(sym) ==
  CASE sym = "Z2" -> <<<<0, 0>>, <<1, 0>>, <<1, 0>>, <<0, 0>>>>
    [] sym = "U1" -> <<<<0, 0>>, <<1, 0>>, <<1, 0>>, <<2, 0>>>>
    [] sym \in {"Z2Z2", "U1U1"} -> <<<<0, 0>>, <<0, 1>>, <<1, 0>>, <<1, 1>>>>
SpinlessLabels(sym) == <<<<0, 0>>, <<1, 0>>>>
\* coefficients are integers divisible by the degrees (multiples of 60): exact division
HamEdgeEv(ev) ==
  LET a == ev.args
      da == Degree(a.edges, a.edge[1])
      db == Degree(a.edges, a.edge[2])
      ok == da > 0 /\ db > 0 /\ a.Ua % da = 0 /\ a.Ub % db = 0 /\ a.mua % da = 0 /\ a.mub % db = 0
      terms == IF a.model = "spinful"
               THEN SpinfulTerms(a.t, a.Ua \div da, a.Ub \div db, a.mua \div da, a.mub \div db)
               ELSE SpinlessTerms(a.t, a.V, a.mua \div da, a.mub \div db)
      bases == IF a.model = "spinful" THEN SpinfulBases ELSE SpinlessBases
      lab == IF a.model = "spinful" THEN SpinfulLabels(a.sym) ELSE SpinlessLabels(a.sym)
      b == [terms |-> terms, bases |-> bases, labels |-> <<lab, lab>>, sym |-> a.sym]
  IN IF ~ok THEN {}
     ELSE LocalArrayEv([ev EXCEPT !.args = b])
\* C18: the shipped model builders (fermi_hubbard_*_local_array, fermi_number_operator_*_local_array,
\* fermi_spin_operator_local_array) called directly.  args: name, sym, t, U/V, mu as pairs, z = coordinations, scale (the
\* result was multiplied by it so that halves become integers)
LocalBuilderEv(ev) ==
  LET a == ev.args
      ok == a.Ua % a.z[1] = 0 /\ a.Ub % a.z[2] = 0 /\ a.mua % a.z[1] = 0 /\ a.mub % a.z[2] = 0
      one == << << <<>>, <<Cr(1)>>, <<Cr(2)>>, <<Cr(2), Cr(1)>> >> >>      \* (|00>, ad+, au+, au+ ad+) of one site
      terms == CASE a.name = "hubbard" -> SpinfulTerms(a.t, a.Ua \div a.z[1], a.Ub \div a.z[2], a.mua \div a.z[1], a.mub \div a.z[2])
                 [] a.name = "hubbard_spinless" -> SpinlessTerms(a.t, a.V, a.mua \div a.z[1], a.mub \div a.z[2])
                 [] a.name = "number_spinless" -> <<Term(1, <<Cr(1), An(1)>>)>>
                 [] a.name = "number_spinful" -> <<Term(1, <<Cr(2), An(2)>>), Term(1, <<Cr(1), An(1)>>)>>
                 [] a.name = "spin" -> <<Term(1, <<Cr(2), An(2)>>), Term(-1, <<Cr(1), An(1)>>)>>    \* 2 S^z
      bases == CASE a.name = "hubbard" -> SpinfulBases
                 [] a.name = "hubbard_spinless" -> SpinlessBases
                 [] a.name = "number_spinless" -> << << <<>>, <<Cr(1)>> >> >>
                 [] OTHER -> one
      lab1 == IF a.name \in {"hubbard_spinless", "number_spinless"} THEN SpinlessLabels(a.sym) ELSE SpinfulLabels(a.sym)
      b == [terms |-> terms, bases |-> bases, labels |-> [i \in 1..Len(bases) |-> lab1], sym |-> a.sym]
  IN IF ~ok THEN {} ELSE LocalArrayEv([ev EXCEPT !.args = b, !.op = "local_array"])
\* every edge exactly once, as given
HamKeysEv(ev) ==
  LET t == ev.regs.tab IN
  IF ev.outcome = "raise" THEN {"C19.builder_raises"} ELSE
  F(Len(t.keys) = Len(t.edges) /\ \A i \in 1..Len(t.edges) : t.keys[i] = t.edges[i], "C19.each_edge_once")
SiteInfoEv(ev) ==
  LET t == ev.regs.tab
      S == 1..Len(t.sites)
      bondname(i, k) == t.sites[i].inds[k]
      nb(i) == Len(t.sites[i].inds) - (IF t.phys THEN 1 ELSE 0)
      ends(name) == {ik \in {jk \in S \X (1..8) : jk[2] <= nb(jk[1])} : bondname(ik[1], ik[2]) = name}
      allnames == {bondname(ik[1], ik[2]) : ik \in {jk \in S \X (1..8) : jk[2] <= nb(jk[1])}}
  IN IF ev.outcome = "raise" THEN {"C19.site_info.raises"} ELSE
     F(\A i \in S : t.sites[i].coordination = Degree(t.edges, t.sites[i].site) /\ nb(i) = Degree(t.edges, t.sites[i].site),
       "C19.site_info.coordination")
     \cup F(\A nm \in allnames : Cardinality(ends(nm)) = 2, "C19.site_info.bond_shared_by_two")
     \cup F(\A nm \in allnames : \A e1, e2 \in ends(nm) : e1 # e2 =>
               /\ e1[1] # e2[1]
               /\ t.sites[e1[1]].duals[e1[2]] # t.sites[e2[1]].duals[e2[2]]
               /\ \E i \in 1..Len(t.edges) : {t.edges[i][1], t.edges[i][2]} = {t.sites[e1[1]].site, t.sites[e2[1]].site},
             "C19.site_info.opposite_directions")
     \cup F(Cardinality(allnames) = Len(t.edges), "C19.site_info.one_name_per_bond")


---------------------------------------------------------------------------
\* C15: a replayed thread schedule of the fuse-plan cache
\* result registers are named t<thread>_<i>_<array>; the reference of array X is ref_X
ThreadsEv(ev) ==
  LET a == ev.args
      R == ev.regs
      names == {r \in DOMAIN R : \E i \in 1..Len(a.results) : a.results[i] = r}
      \* the harness lists for every result the register holding the sequential value
      pairs == {<<a.results[i], a.refs[i]>> : i \in 1..Len(a.results)}
  IN F(a.errors = <<>>, "C15.threads.no_exception")
     \cup F(~a.diverged, "C15.threads.completed")
     \cup F(\A p \in pairs : p[1] \in DOMAIN R /\ p[2] \in DOMAIN R /\ Obs(R[p[1]]) = Obs(R[p[2]]),
            "C15.threads.equals_sequential")
     \cup F(a.expected_results = Len(a.results), "C15.threads.all_calls_returned")
     \cup F(a.final_size <= (IF a.maxsize = 0 THEN 0 ELSE a.maxsize), "C15.threads.size_bound")
ThreadsDrift(ev) == F(ev.args.actual = ev.args.predicted, "L2.schedule")


\* C15: the default contraction mode is restored on exit, also after an error, also nested
ModeCtxEv(ev) ==
  LET a == ev.args
      m == Outs(ev, 1)
      want == IF Has(a, "nested") THEN <<a.mode, a.nested, a.mode>> ELSE <<a.mode>>
  IN IF ev.outcome = "raise" THEN {"C15.mode_context.raises"}
     ELSE F(m.after = m.before, "C15.mode_context.restored")
          \cup F(m.inside = want, "C15.mode_context.inside")


---------------------------------------------------------------------------
\* L2: the implementation-shaped prediction of the result (Impl / FermiImpl) against the logged one.
\* A disagreement with passing L1 clauses is SPEC DRIFT (reported, never an alarm).
CoreBlocks(x) == [i \in 1..Len(x.blocks) |-> [s |-> x.blocks[i].s, shape |-> x.blocks[i].shape, data |-> x.blocks[i].data]]
NegPhases(x) == IF IsFermi(x) THEN {x.phases[i].s : i \in {j \in 1..Len(x.phases) : x.phases[j].p = -1}} ELSE {}
L2Eq(x, y) ==
  /\ x.ix = y.ix /\ x.charge = y.charge /\ x.sym = y.sym /\ x.kind = y.kind
  /\ CoreBlocks(x) = CoreBlocks(y)
  /\ NegPhases(x) = NegPhases(y) /\ Labels(x) = Labels(y)
PermArg(a, n) == IF Flag(a, "axes_none") THEN Reversal(n) ELSE [i \in 1..Len(a.axes) |-> a.axes[i] + 1]
ResolveMode(a, ncon) ==
  LET m == IF Has(a, "mode") /\ a.mode \notin {"default"} THEN a.mode ELSE "auto"
  IN IF m = "auto" THEN (IF ncon = 0 THEN "blockwise" ELSE "fused") ELSE m
\* <<known, value>>
ImplOf(ev, pre) ==
  LET x == Ins(ev, pre, 1)
      a == ev.args
      n == Rank(x)
      none == <<FALSE, x>>
  IN IF ~IsArray(x) \/ ~AllExact(x) THEN none
     ELSE IF ~IsFermi(x) THEN
       CASE ev.op = "transpose" -> <<TRUE, ITranspose(x, PermArg(a, n))>>
         [] ev.op = "T" -> <<TRUE, ITranspose(x, Reversal(n))>>
         [] ev.op = "conj" -> <<TRUE, IConj(x)>>
         [] ev.op \in {"dagger", "H"} -> <<TRUE, IDagger(x)>>
         [] ev.op = "squeeze" -> <<TRUE, ISqueeze(x, SqueezeAxes(x, a))>>
         [] ev.op = "expand_dims" ->
              LET p == ExpandPos(x, a.axis) IN
              <<TRUE, IExpand(x, p, IF Has(a, "c") THEN a.c ELSE Zero, ExpandDual(x, p, a))>>
         [] ev.op = "tensordot" ->
              LET b == Ins(ev, pre, 2)
                  ax == TdAxes(a, n, Rank(b))
              IN IF ~IsArray(b) \/ ~AllExact(b) THEN none
                 ELSE <<TRUE, IF ResolveMode(a, Len(ax[1])) = "fused" THEN ITensordotFused(x, b, ax[1], ax[2])
                                                                      ELSE ITensordotBlockwise(x, b, ax[1], ax[2])>>
         [] ev.op = "matmul" ->
              LET b == Ins(ev, pre, 2) IN
              IF ~IsArray(b) \/ ~AllExact(b) THEN none ELSE <<TRUE, ITensordotBlockwise(x, b, <<n>>, <<1>>)>>
         [] ev.op = "fuse" ->
              LET g == Groups1(a.groups) IN
              IF FuseEnabled(x, g) /\ x.blocks # <<>> THEN <<TRUE, IFuseCore(x, g)>> ELSE none
         [] ev.op = "unfuse" ->
              LET ax == NormAx(a.axis, n) IN IF IsFused(x.ix[ax]) THEN <<TRUE, IUnfuse(x, ax)>> ELSE none
         [] ev.op = "reshape" ->
              IF x.blocks # <<>> /\ Has(a, "newshape") /\ ProdSeq(a.newshape) = ProdSeq(ShapeOf(x)) /\ ReshapePlan(x, a.newshape).ok
              THEN <<TRUE, IReshape(x, a.newshape)>> ELSE none
         [] ev.op = "neg" -> <<TRUE, INeg(x)>>
         [] ev.op \in {"smul", "rsmul", "ismul"} -> <<TRUE, IScale(x, a.k)>>
         [] ev.op \in {"add", "iadd", "sub", "isub", "mul", "imul"} ->
              LET y == Ins(ev, pre, 2) IN
              IF ~IsArray(y) \/ ~AllExact(y) \/ ~SameShape(x, y) THEN none
              ELSE IF ev.op \in {"add", "iadd"} THEN <<TRUE, IBinary(x, y, VAdd, "outer")>>
              ELSE IF ev.op \in {"mul", "imul"} THEN <<TRUE, IBinary(x, y, VMul, "inner")>>
              ELSE IF SectorSet(x) = SectorSet(y) THEN <<TRUE, IBinary(x, y, VSub, "strict")>> ELSE none
         [] ev.op = "multiply_diagonal" ->
              LET v == Ins(ev, pre, 2)
                  ax == NormAx(a.axis, n)
              IN IF IsVector(v) /\ AllExact(v) /\ MulDiagEnabled(x, v, ax) THEN <<TRUE, IMulDiag(x, v, ax)>> ELSE none
         [] ev.op = "sync_charges" -> <<TRUE, ISyncCharges(x)>>
         [] ev.op = "fill_missing_blocks" -> IF x.blocks # <<>> THEN <<TRUE, IFillMissing(x)>> ELSE none
         [] ev.op = "einsum" -> IF EinsumEnabled(x, a.lhs, a.rhs) THEN <<TRUE, IEinsum(x, a.lhs, a.rhs)>> ELSE none
         [] OTHER -> none
     ELSE
       CASE ev.op = "transpose" -> <<TRUE, IFTranspose(x, PermArg(a, n), ~(Has(a, "phase") /\ a.phase = FALSE))>>
         [] ev.op = "T" -> <<TRUE, IFTranspose(x, Reversal(n), TRUE)>>
         [] ev.op = "conj" -> <<TRUE, IFConj(x, ~(Has(a, "phase_permutation") /\ a.phase_permutation = FALSE), Flag(a, "phase_dual"))>>
         [] ev.op \in {"dagger", "H"} -> <<TRUE, IFDagger(x, Flag(a, "phase_dual"))>>
         [] ev.op = "phase_flip" -> <<TRUE, IPhaseFlip(x, NormAxes(a.axs, n))>>
         [] ev.op = "phase_transpose" -> <<TRUE, IF Flag(a, "axes_none") THEN IPhaseTransposeAll(x) ELSE IPhaseTranspose(x, PermArg(a, n))>>
         [] ev.op = "phase_global" -> <<TRUE, IPhaseGlobal(x)>>
         [] ev.op = "phase_sector" -> <<TRUE, IPhaseSector(x, a.sector)>>
         [] ev.op = "phase_sync" -> <<TRUE, IPhaseSync(x)>>
         [] ev.op = "reshape" ->
              IF x.blocks # <<>> /\ Has(a, "newshape") /\ ProdSeq(a.newshape) = ProdSeq(ShapeOf(x)) /\ ReshapePlan(x, a.newshape).ok
              THEN <<TRUE, IReshape(x, a.newshape)>> ELSE none
         [] ev.op = "neg" -> <<TRUE, INeg(x)>>
         [] ev.op \in {"smul", "rsmul", "ismul"} -> <<TRUE, IScale(x, a.k)>>
         [] ev.op \in {"add", "iadd", "sub", "isub", "mul", "imul"} ->
              LET y == Ins(ev, pre, 2) IN
              IF ~IsArray(y) \/ ~IsFermi(y) \/ ~AllExact(y) \/ ~SameShape(x, y) \/ Labels(x) # Labels(y) THEN none
              ELSE IF ev.op \in {"add", "iadd"} THEN <<TRUE, IFBinary(x, y, VAdd, "outer")>>
              ELSE IF ev.op \in {"mul", "imul"} THEN <<TRUE, IFBinary(x, y, VMul, "inner")>>
              ELSE IF SectorSet(x) = SectorSet(y) THEN <<TRUE, IFBinary(x, y, VSub, "strict")>> ELSE none
         [] ev.op = "squeeze" -> <<TRUE, IFSqueeze(x, SqueezeAxes(x, a))>>
         [] ev.op = "expand_dims" ->
              LET p == ExpandPos(x, a.axis) IN
              <<TRUE, IFExpand(x, p, IF Has(a, "c") THEN a.c ELSE Zero, ExpandDual(x, p, a))>>
         [] ev.op = "sync_charges" -> <<TRUE, ISyncCharges(x)>>
         [] ev.op = "multiply_diagonal" ->
              LET v == Ins(ev, pre, 2)
                  ax == NormAx(a.axis, n)
              IN IF IsVector(v) /\ AllExact(v) /\ MulDiagEnabled(x, v, ax) THEN <<TRUE, IMulDiag(x, v, ax)>> ELSE none
         [] ev.op = "fill_missing_blocks" -> IF x.blocks # <<>> THEN <<TRUE, IFillMissing(x)>> ELSE none
         [] ev.op = "matmul" ->
              LET y == Ins(ev, pre, 2) IN
              IF ~IsArray(y) \/ ~AllExact(y) \/ ~LabelsOK(x.oddpos \o y.oddpos) THEN none ELSE <<TRUE, IFMatmul(x, y)>>
         [] ev.op = "einsum" -> IF EinsumEnabled(x, a.lhs, a.rhs) THEN <<TRUE, IFEinsum(x, a.lhs, a.rhs)>> ELSE none
         [] ev.op = "fuse" ->
              LET g == Groups1(a.groups) IN
              IF FuseEnabled(x, g) /\ x.blocks # <<>> THEN <<TRUE, IFFuse(x, g)>> ELSE none
         [] ev.op = "unfuse" ->
              LET ax == NormAx(a.axis, n) IN IF IsFused(x.ix[ax]) THEN <<TRUE, IFUnfuse(x, ax)>> ELSE none
         [] ev.op = "tensordot" ->
              LET b == Ins(ev, pre, 2)
                  ax == TdAxes(a, n, Rank(b))
              IN IF ~IsArray(b) \/ ~AllExact(b) \/ ~LabelsOK(x.oddpos \o b.oddpos) THEN none
                 ELSE <<TRUE, IFTensordot(x, b, ax[1], ax[2], ResolveMode(a, Len(ax[1])))>>
         [] OTHER -> none
ImplDrift(ev, pre) ==
  IF ev.outcome = "raise" \/ ev.in = <<>> \/ ev.out = <<>> THEN {}
  ELSE LET m == ImplOf(ev, pre)
           r == Outs(ev, 1)
       IN IF ~m[1] THEN {}
          ELSE IF IsArray(r) THEN (IF AllExact(r) THEN {"L2+" \o ev.op} \cup F(L2Eq(m[2], r), "L2." \o ev.op) ELSE {})
          ELSE IF IsScalar(r) /\ r.exact
          THEN {"L2+" \o ev.op} \cup F(Rank(m[2]) = 0 /\ r.v = ValAt(Elem(m[2]), <<>>), "L2." \o ev.op \o ".scalar")
          ELSE {}
\* operations whose result is a number or a dense array
ImplScalarDrift(ev, pre) ==
  LET x == Ins(ev, pre, 1)
      r == Outs(ev, 1)
      y == IF IsFermi(x) THEN IPhaseSync(x) ELSE x
  IN IF ev.outcome = "raise" \/ ~IsArray(x) \/ ~AllExact(x) \/ x.blocks = <<>> THEN {}
     ELSE CASE ev.op = "sum" -> IF IsScalar(r) /\ r.exact THEN {"L2+sum"} \cup F(r.v = ISum(y), "L2.sum") ELSE {}
            [] ev.op = "norm_sq" -> IF IsScalar(r) /\ r.exact THEN {"L2+norm_sq"} \cup F(r.v = <<INorm2(y), 0>>, "L2.norm_sq") ELSE {}
            [] ev.op = "trace" ->
                 IF IsScalar(r) /\ r.exact /\ Rank(x) = 2 /\ Contractible(x, x, <<1>>, <<2>>)
                 THEN {"L2+trace"} \cup F(r.v = (IF IsFermi(x) THEN IFTrace(x) ELSE ITrace(x)), "L2.trace") ELSE {}
            [] ev.op = "to_dense" ->
                 IF IsDense(r) /\ r.exact /\ Rank(x) > 0
                 THEN LET d == IToDense(y) IN {"L2+to_dense"} \cup F(r.shape = d.shape /\ r.data = d.data, "L2.to_dense") ELSE {}
            [] OTHER -> {}


\* C07 routine level: one recorded call of the axis-matching routine
ReshapeArgsEv(ev) ==
  LET t == ev.regs.tab
      promised == Flag(t, "back") \/ IsMergeDrop(t.shape, t.newshape)
      en == promised \/ Flag(t, "wellposed")
  IN IF ~en THEN {}
     ELSE IF ev.outcome = "raise" THEN (IF promised THEN {"C07.routine.raises"} ELSE {})
     ELSE F(PlanWellFormed(t.shape, t.subsizes, t.plan), "C07.routine.plan_well_formed")
          \cup (IF PlanWellFormed(t.shape, t.subsizes, t.plan)
                THEN F(ShapeOfAxes(ApplyPlan(t.shape, t.subsizes, t.plan)) = t.newshape, "C07.routine.plan_gives_target")
                ELSE {})

---------------------------------------------------------------------------
OpFails(ev, pre) ==
  IF ev.op \in {"group_pairs", "group_assoc", "sectors"} THEN TableFails(ev)
  ELSE IF ev.op = "reshape_args" THEN ReshapeArgsEv(ev)
  ELSE IF ev.op = "threads_run" THEN ThreadsEv(ev)
  ELSE IF ev.op = "stress_run"
  THEN \* free-running threads on shared arrays: what the harness observed (every result compared with the sequential one)
       F(ev.args.mismatches = 0, "C15.threads.stress_equals_sequential")
       \cup F(ev.args.errors = <<>> /\ ~ev.args.hung, "C15.threads.stress_no_error")
  ELSE IF ev.op = "mode_ctx" THEN ModeCtxEv(ev)
  ELSE IF ev.op \in {"set_cache", "set_default_mode", "make_state"} THEN {}
  ELSE IF ev.op = "local_elements" THEN LocalElementsEv(ev)
  ELSE IF ev.op = "local_array" THEN LocalArrayEv(ev)
  ELSE IF ev.op = "ham_edge" THEN HamEdgeEv(ev)
  ELSE IF ev.op = "local_builder" THEN LocalBuilderEv(ev)
  ELSE IF ev.op = "ham_keys" THEN HamKeysEv(ev)
  ELSE IF ev.op = "site_info" THEN SiteInfoEv(ev)
  ELSE IF ev.op = "op_apply" THEN OpApplyEv(ev, pre)
  ELSE IF ev.op = "init" \/ ev.in = <<>> THEN {}
  ELSE IF ~InputsValid(ev, pre)
  THEN \* an operand is not a valid array (reported where it was produced): the value clauses presuppose validity.
       \* A relation between two results still has a meaning: they are not "the same" unless they are the same record.
       (IF ev.op = "rel" /\ Len(ev.in) = 2 /\ ev.args.how \in {"same", "blocks", "array_equal", "array_equal_den", "same_decoded"}
        THEN LET strip(x) == <<x.charge, x.ix, [i \in 1..Len(x.blocks) |-> <<x.blocks[i].s, x.blocks[i].shape, x.blocks[i].data>>],
                                SeqRange(x.phases), x.oddpos>>
                 u == Ins(ev, pre, 1)
                 w == Ins(ev, pre, 2)
             IN \* (an invalid array and a number, a vector, ... are never "the same")
                F(IsArray(u) /\ IsArray(w) /\ strip(u) = strip(w), ev.args.clause)
        ELSE {})
  ELSE IF ev.op = "rel" THEN PseudoFails(ev, pre)
  ELSE IF ev.op = "observe" THEN ObserveEv(ev)
  ELSE IF ev.op \in {"qr", "svd", "eigh", "solve", "svd_truncated"} THEN LinalgFails(ev, pre)
  ELSE IF \E i \in 1..Len(ev.in) : LET v == pre[ev.in[i]] IN (IsArray(v) \/ IsVector(v)) /\ ~AllExact(v)
  THEN {}    \* an operand was logged without data (too large / not integral): no value-level clause
  ELSE IF ev.op = "from_dense" THEN FromDenseEv(ev, pre)
  ELSE IF ev.op \in {"from_blocks", "construct", "from_fill_fn"} THEN ConstructEv(ev, pre)
  ELSE IF ev.op = "fuse" THEN FuseEv(ev, pre)
  ELSE IF ev.op = "unfuse" THEN UnfuseEv(ev, pre)
  ELSE IF ev.op = "reshape" THEN ReshapeEv(ev, pre)
  ELSE LET x == Ins(ev, pre, 1) IN
       IF IsArray(x) /\ ~IsFermi(x) THEN AbelianFails(ev, pre)
       ELSE IF IsArray(x) /\ IsFermi(x) THEN FermiFails(ev, pre)
       ELSE IF IsVector(x) THEN VectorFails(ev, pre)
       ELSE {}

\* C12: "the Frobenius norm equals the dense norm" - for every valid array, also one that stores no block (norm 0)
NormFails(ev, pre) ==
  IF ev.op \notin {"norm", "norm_sq"} \/ ev.in = <<>> \/ ev.entry = "suite" THEN {}
  ELSE LET x == Ins(ev, pre, 1) IN
       IF ~((IsArray(x) /\ Valid(x)) \/ (IsVector(x) /\ ValidVector(x))) THEN {}
       ELSE IF ev.outcome = "raise" THEN {"C12.norm.raises"}
       ELSE LET r == Outs(ev, 1) IN
            IF ev.op = "norm_sq" /\ IsScalar(r) /\ r.exact /\ AllExact(x)
            THEN F(r.v = <<Norm2(IF IsArray(x) THEN Elem(x) ELSE VecElem(x)), 0>>, "C12.norm_equals_dense.direct")
            ELSE {}

EventFails(ev, pre) ==
  ValidFails(ev, pre)
  \cup NormFails(ev, pre)
  \cup FrameFails(pre, ev.regs, Targets(ev))
  \cup DtypeFails(ev, pre)
  \cup OpFails(ev, pre)

\* the real axis-matching routine against its transcription (ReshapeImpl): same plan, raises in the same cases
ReshapeArgsDrift(ev) ==
  LET t == ev.regs.tab
      m == CalcReshapeArgs(t.shape, t.newshape, t.subsizes)
  IN {"L2+reshape_args"}
     \cup F(m.ok = (ev.outcome = "ok"), "L2.reshape_args.outcome")
     \cup (IF m.ok /\ ev.outcome = "ok"
           THEN F(t.plan.unfuse = m.unfuse /\ t.plan.fuse = m.fuse /\ t.plan.expand = m.expand, "L2.reshape_args.plan")
           ELSE {})
\* decompositions: the recorded factors have the skeleton the code builds around LAPACK's numbers
LinalgDrift(ev, pre) ==
  LET x == Ins(ev, pre, 1)
      ok(k) == Len(ev.out) >= k /\ (IsArray(Outs(ev, k)) \/ IsVector(Outs(ev, k)))
  IN IF ev.outcome = "raise" \/ ~IsArray(x) \/ Rank(x) # 2 \/ ~Valid(x) THEN {}
     ELSE CASE ev.op = "qr" ->
                 IF ok(1) /\ ok(2) THEN {"L2+qr"} \cup F(SkelEq(LeftFactorSkel(x), Outs(ev, 1)), "L2.qr.q")
                                                  \cup F(SkelEq(RightFactorSkel(x), Outs(ev, 2)), "L2.qr.r") ELSE {}
            [] ev.op = "svd" ->
                 IF ok(1) /\ ok(2) /\ ok(3) THEN {"L2+svd"} \cup F(SkelEq(LeftFactorSkel(x), Outs(ev, 1)), "L2.svd.u")
                                                  \cup F(VecSkelEq(ValuesSkel(x), Outs(ev, 2)), "L2.svd.s")
                                                  \cup F(SkelEq(RightFactorSkel(x), Outs(ev, 3)), "L2.svd.vh") ELSE {}
            [] ev.op = "eigh" ->
                 IF ok(1) /\ ok(2) /\ x.charge = Zero THEN {"L2+eigh"} \cup F(VecSkelEq(ValuesSkel(x), Outs(ev, 1)), "L2.eigh.w")
                                                  \cup F(SkelEq(EighVectorsSkel(x), Outs(ev, 2)), "L2.eigh.v") ELSE {}
            [] ev.op = "solve" ->
                 LET b == Ins(ev, pre, 2) IN
                 IF ok(1) /\ IsArray(b) /\ Rank(b) = 1 /\ Valid(b) THEN {"L2+solve"} \cup F(SkelEq(SolveSkel(x, b), Outs(ev, 1)), "L2.solve.x") ELSE {}
            [] OTHER -> {}
EventDrift(ev, pre) ==
  IF ev.op \in {"group_pairs", "group_assoc", "sectors"} THEN TableDrift(ev)
  ELSE IF ev.op \in {"qr", "svd", "eigh", "solve"} /\ ev.in # <<>> THEN LinalgDrift(ev, pre)
  ELSE IF ev.op = "reshape_args" THEN ReshapeArgsDrift(ev)
  ELSE IF ev.op = "threads_run" THEN ThreadsDrift(ev)
  ELSE IF ev.op = "init" /\ Has(ev.args, "descs")
  THEN \* programs exported from Machine.tla: the real inputs must be the arrays the model started from
       UNION { LET d == ev.args.descs[r] IN
               IF d.kind = "vector"
               THEN {"L2+init"} \cup F(LET v == BuildVector([blocks |-> d.blocks, start |-> d.start])
                                           w == ev.regs[r]
                                       IN IsVector(w) /\ Len(w.blocks) = Len(v.blocks)
                                          /\ \A k \in 1..Len(v.blocks) : w.blocks[k].c = v.blocks[k].c /\ w.blocks[k].data = v.blocks[k].data,
                                       "L2.init." \o r)
               ELSE
               LET
                   dd == [ix |-> d.ix, charge |-> d.charge, drop |-> SeqRange(d.drop), start |-> d.start,
                          phases |-> SeqRange(d.phases), oddpos |-> d.oddpos]
               IN {"L2+init"} \cup F(L2Eq(BuildArray(d.sym, d.kind, dd), ev.regs[r]), "L2.init." \o r) : r \in DOMAIN ev.args.descs }
  ELSE IF ev.op \in {"rel", "init", "observe", "op_apply", "make_state"} THEN {}
  ELSE IF ~InputsValid(ev, pre) THEN {}
  ELSE IF ev.op \in {"sum", "norm_sq", "trace", "to_dense"} /\ ev.in # <<>> THEN ImplScalarDrift(ev, pre)
  ELSE ImplDrift(ev, pre)

=============================================================================
