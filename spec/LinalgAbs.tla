----------------------------- MODULE LinalgAbs -----------------------------
(***************************************************************************)
(* Decompositions (C11, C12) and truncation (C13).                          *)
(*                                                                          *)
(* The structure of the factors is stated exactly (sectors, bond index,      *)
(* charges, shapes = kernel column counts).  Values are exact on the         *)
(* integer families (1x1 and monomial blocks); for general float matrices    *)
(* the harness logs tolerance-based OBSERVATIONS of the LAPACK output and    *)
(* the clauses require them TRUE.                                            *)
(***************************************************************************)
EXTENDS FuseAbs

MinI(a, b) == IF a < b THEN a ELSE b
ColCharge(s) == s[2]
\* one bond charge per input block, and column charges are pairwise distinct
\* (a valid 2-index array pairs every row charge with exactly one column charge)
OneColPerBlock(x) == \A i, j \in 1..Len(x.blocks) : i # j => x.blocks[i].s[2] # x.blocks[j].s[2]

\* structure shared by QR and SVD: left factor l (Q / U), right factor r (R / Vh)
FactorStructure(x, l, r, p) ==
  LET bond == l.ix[2] IN
  F(Rank(l) = 2 /\ Rank(r) = 2, p \o ".rank")
  \cup (IF Rank(l) # 2 \/ Rank(r) # 2 THEN {}
        ELSE F(SectorSet(l) = SectorSet(x), p \o ".left_sectors")
          \cup F(SectorSet(r) = {<<b.s[2], b.s[2]>> : b \in SeqRange(x.blocks)}, p \o ".right_sectors")
          \cup F(l.charge = x.charge /\ r.charge = Zero, p \o ".charges")
          \cup F(PlainIndex(l.ix[1]) = PlainIndex(x.ix[1]), p \o ".left_index")
          \cup F(r.ix[2].dual = x.ix[2].dual /\ CmSet(r.ix[2]) \subseteq CmSet(x.ix[2]), p \o ".right_index")
          \cup F(bond.dual = x.ix[2].dual /\ r.ix[1].dual = ~bond.dual /\ r.ix[1].cm = bond.cm, p \o ".bond_conjugate_pair")
          \cup F(CmChargeSet(bond) = {b.s[2] : b \in SeqRange(x.blocks)}, p \o ".bond_one_charge_per_block")
          \cup F(\A i \in 1..Len(x.blocks) :
                    LET b == x.blocks[i]
                        k == MinI(b.shape[1], b.shape[2])
                    IN /\ HasSector(l, b.s) /\ BlockOf(l, b.s).shape = <<b.shape[1], k>>
                       /\ HasSector(r, <<b.s[2], b.s[2]>>) /\ BlockOf(r, <<b.s[2], b.s[2]>>).shape = <<k, b.shape[2]>>
                       /\ CmHas(bond, b.s[2]) /\ SizeOf(bond, b.s[2]) = k,
                 p \o ".shapes"))

\* singular / eigen value vector: one block per stored block, keyed by the column charge
ValuesStructure(x, s, p, square) ==
  F(VecKeys(s) = {b.s[2] : b \in SeqRange(x.blocks)}, p \o ".value_keys")
  \cup F(\A i \in 1..Len(x.blocks) :
            LET b == x.blocks[i] IN
            VecHas(s, b.s[2]) =>
              VecBlock(s, b.s[2]).shape = <<IF square THEN b.shape[2] ELSE MinI(b.shape[1], b.shape[2])>>,
         p \o ".value_shapes")

\* integer vector helpers
VecVals(s, c) == VecBlock(s, c).data
NonIncreasing(d) == \A i \in 1..(Len(d) - 1) : d[i][1] >= d[i + 1][1]
NonDecreasing(d) == \A i \in 1..(Len(d) - 1) : d[i][1] <= d[i + 1][1]
\* bag of the real parts of all entries of a vector, as <<value, multiplicity>> pairs
VecBag(s) ==
  LET E == VecElem(s) IN {<<m, Cardinality({e \in E : e.v[1] = m})>> : m \in {e.v[1] : e \in E}}

\* C12 on the integer families (real data): the dense form of a matrix with monomial
\* blocks is itself monomial, so its non-zero singular values are the magnitudes of its
\* entries.  Everything below is computed from the DENSE form (DenseElems), not from blocks.
IsMonomial(E) == \A e, f \in E : e # f => (e.k[1] # f.k[1] /\ e.k[2] # f.k[2])
IsRealE(E) == \A e \in E : e.v[2] = 0
MagBagReal(E) == {<<m, Cardinality({e \in E : AbsI(e.v[1]) = m})>> : m \in {AbsI(e.v[1]) : e \in E}}
\* bag of the non-zero entries of a value vector
NZVecBag(s) ==
  LET E == {e \in VecElem(s) : e.v # VZero} IN {<<m, Cardinality({e \in E : e.v[1] = m})>> : m \in {e.v[1] : e \in E}}

---------------------------------------------------------------------------
\* C13: what a truncation must keep.  The spectrum is read off the (monomial) input:
\* slots <<column charge, value>>, values pairwise distinct and positive.
Slots(x) == {<<KeySector(e.k)[2], AbsI(e.v[1])>> : e \in Elem(x)}
DistinctSpectrum(x) == \A a, b \in Slots(x) : a # b => a[2] # b[2]
Pow(v, p) == IF p = 2 THEN v * v ELSE v
CumUpTo(S, v, p) == FoldSet(LAMBDA a, acc : acc + Pow(a[2], p), 0, {a \in S : a[2] <= v})
TotalPow(S, p) == FoldSet(LAMBDA a, acc : acc + Pow(a[2], p), 0, S)
MaxVal(S) == Max({a[2] : a \in S})
\* cutoff = num / den > 0
PassesCutoff(S, a, num, den, mode) ==
  CASE mode = 1 -> a[2] * den >= num
    [] mode = 2 -> a[2] * den >= num * MaxVal(S)
    [] mode = 3 -> CumUpTo(S, a[2], 2) * den >= num
    [] mode = 4 -> CumUpTo(S, a[2], 2) * den >= num * TotalPow(S, 2)
    [] mode = 5 -> CumUpTo(S, a[2], 1) * den >= num
    [] mode = 6 -> CumUpTo(S, a[2], 1) * den >= num * TotalPow(S, 1)
\* the n largest slots of K
Largest(K, n) == {a \in K : Cardinality({b \in K : b[2] > a[2]}) < n}
KeptSlots(S, num, den, mode, maxbond) ==
  LET K == {a \in S : PassesCutoff(S, a, num, den, mode)}
  IN IF maxbond > 0 /\ maxbond < Cardinality(K) THEN Largest(K, maxbond) ELSE K
DescSeq(V) == SetToSortSeq(V, LAMBDA a, b : a > b)

=============================================================================
