SPECIFICATION Spec
CONSTANTS
  Sym = "Z2Z2"
  BoxK = 6
  MaxRank = 2
INVARIANT SectorsExact
CHECK_DEADLOCK FALSE
