---------------------------- MODULE MC_LocalOps ----------------------------
(***************************************************************************)
(* C18 on the model: the library-shaped evaluation of an operator string    *)
(* (phased bubble sort by label, then the per-label "annihilate-create"      *)
(* pattern test) equals the Fock-space vacuum expectation (operators applied *)
(* right to left to occupation sets with Jordan-Wigner counting) for EVERY   *)
(* string up to MaxLen over NModes modes; and the Hubbard term lists of C19  *)
(* are Hermitian as Fock operators.  One TLC state per string.               *)
(***************************************************************************)
EXTENDS LocalOps

CONSTANTS NModes, MaxLen

Sym == [m : 1..NModes, cr : BOOLEAN]
VARIABLE str
Init == str \in UNION {[1..n -> Sym] : n \in 0..MaxLen}
Next == UNCHANGED str
Spec == Init /\ [][Next]_str

BubbleIsFock == BubbleEval(str) = FockEval(str)
\* the vacuum expectation of the adjoint string is the same number (real): <0|S|0> = <0|S^dag|0>
AdjointSame == FockEval(DagOps(str)) = FockEval(str)
\* anticommutation: swapping two neighbours with different modes flips the sign
Anticommute ==
  \A i \in 1..(Len(str) - 1) : str[i].m # str[i + 1].m =>
     FockEval([str EXCEPT ![i] = str[i + 1], ![i + 1] = str[i]]) = 0 - FockEval(str)
\* NEGATIVE CONTROLS (checks/c18.py expects TLC to report them): operators that commute (an evaluation that forgot the
\* phase of its sort), and the claim that no string has a negative expectation
ControlCommute ==
  \A i \in 1..(Len(str) - 1) : str[i].m # str[i + 1].m =>
     FockEval([str EXCEPT ![i] = str[i + 1], ![i + 1] = str[i]]) = FockEval(str)
ControlNeverNegative == BubbleEval(str) >= 0
=============================================================================
