------------------------------ MODULE FermiImpl ------------------------------
(***************************************************************************)
(* Implementation-shaped fermionic layer (fermionic_core.py): lazily        *)
(* tracked sign table, odd-position labels, and the order in which the      *)
(* library combines them.  The sign table is kept as a sequence of [s, p];  *)
(* only the SET of entries is compared with the real table (dict order of   *)
(* the table is not observable through any property).                       *)
(***************************************************************************)
EXTENDS Impl, ReshapeImpl

\* calc_phase_permutation (symmetries.py:185-225): move-to-front counting, as written
RECURSIVE CPPLoop(_, _, _, _, _)
CPPLoop(par, perm, k, moved, swaps) ==
  IF k > Len(perm) THEN swaps
  ELSE LET ax == perm[k]
           add == IF par[ax] = 1 THEN Cardinality({o \in 1..(ax - 1) : o \notin moved /\ par[o] = 1}) ELSE 0
       IN CPPLoop(par, perm, k + 1, moved \cup {ax}, swaps + add)
CalcPhasePerm(par, perm) == IF CPPLoop(par, perm, 1, {}, 0) % 2 = 1 THEN -1 ELSE 1
\* perm = None: reversal
CalcPhaseFlipAll(par) == IF (SumSeqInt(par) \div 2) % 2 = 1 THEN -1 ELSE 1

PhGet(ph, s) == IF \E i \in 1..Len(ph) : ph[i].s = s THEN ph[CHOOSE i \in 1..Len(ph) : ph[i].s = s].p ELSE 1
PhDel(ph, s) == SelectSeq(ph, LAMBDA e : e.s # s)
PhSet(ph, s, p) == IF p = 1 THEN PhDel(ph, s)
                   ELSE IF \E i \in 1..Len(ph) : ph[i].s = s
                        THEN [i \in 1..Len(ph) |-> IF ph[i].s = s THEN [s |-> s, p |-> p] ELSE ph[i]]
                        ELSE Append(ph, [s |-> s, p |-> p])
\* multiply the table entry of every STORED sector by its sign, as the phase_* methods do
RECURSIVE PhMulSeq(_, _, _)
PhMulSeq(ph, secs, sgns) ==
  IF secs = <<>> THEN ph
  ELSE PhMulSeq(PhSet(ph, Head(secs), PhGet(ph, Head(secs)) * Head(sgns)), Tail(secs), Tail(sgns))
PhMulStored(ph, secs, sgn(_)) == PhMulSeq(ph, secs, [i \in 1..Len(secs) |-> sgn(secs[i])])

Par(x, s) == SectorParities(x.sym, s)

\* transpose (fermionic_core.py:263-311)
IFTranspose(x, perm, phase) ==
  LET nph == IF phase
             THEN SelectSeq([i \in 1..Len(x.blocks) |->
                               [s |-> Permuted(x.blocks[i].s, perm),
                                p |-> PhGet(x.phases, x.blocks[i].s) * CalcPhasePerm(Par(x, x.blocks[i].s), perm)]],
                            LAMBDA e : e.p = -1)
             ELSE [i \in 1..Len(x.phases) |-> [s |-> Permuted(x.phases[i].s, perm), p |-> x.phases[i].p]]
  IN [ITranspose(x, perm) EXCEPT !.phases = nph]
IPhaseFlip(x, axs) ==
  IF axs = <<>> THEN x
  ELSE [x EXCEPT !.phases = PhMulStored(x.phases, Sectors(x),
           LAMBDA s : IF SumSeqInt([i \in 1..Len(axs) |-> Parity(x.sym, s[axs[i]])]) % 2 = 1 THEN -1 ELSE 1)]
IPhaseTranspose(x, perm) ==
  [x EXCEPT !.phases = PhMulStored(x.phases, Sectors(x), LAMBDA s : CalcPhasePerm(Par(x, s), perm))]
IPhaseTransposeAll(x) ==
  [x EXCEPT !.phases = PhMulStored(x.phases, Sectors(x), LAMBDA s : CalcPhaseFlipAll(Par(x, s)))]
IPhaseGlobal(x) == [x EXCEPT !.phases = PhMulStored(x.phases, Sectors(x), LAMBDA s : -1)]
IPhaseSector(x, s) == [x EXCEPT !.phases = PhSet(x.phases, s, 0 - PhGet(x.phases, s))]
IPhaseSync(x) ==
  [x EXCEPT !.phases = <<>>,
            !.blocks = [i \in 1..Len(x.blocks) |->
                          IF PhGet(x.phases, x.blocks[i].s) = -1
                          THEN [x.blocks[i] EXCEPT !.data = MapData(x.blocks[i].data, VNeg)] ELSE x.blocks[i]]]

\* conj (fermionic_core.py:453-531)
IFConj(x, pp, pd) ==
  LET nix == [i \in 1..Len(x.ix) |-> ConjIndex(x.ix[i])]
      axs == {i \in 1..Len(nix) : ~nix[i].dual}
      sgn(s) == (IF pp THEN CalcPhaseFlipAll(Par(x, s)) ELSE 1)
                * (IF pd /\ SumSeqInt([i \in 1..Len(s) |-> IF i \in axs THEN Parity(x.sym, s[i]) ELSE 0]) % 2 = 1 THEN -1 ELSE 1)
      y == [x EXCEPT !.ix = nix, !.charge = Neg(x.sym, x.charge), !.oddpos = LabelConj(x.oddpos),
                     !.blocks = [i \in 1..Len(x.blocks) |-> [x.blocks[i] EXCEPT !.data = MapData(x.blocks[i].data, VConj)]],
                     !.phases = IF pp \/ pd THEN PhMulStored(x.phases, Sectors(x), sgn) ELSE x.phases]
  IN IF pp /\ ParityOfArray(y) = 1 /\ Len(y.oddpos) % 2 = 1 THEN IPhaseGlobal(y) ELSE y
\* dagger (fermionic_core.py:533-589, with the repaired choice of legs for the dual-leg option)
IFDagger(x, pd) ==
  LET n == Rank(x)
      rev == Reversal(n)
      nix == [i \in 1..n |-> ConjIndex(x.ix[n + 1 - i])]
      y == [x EXCEPT !.ix = nix, !.charge = Neg(x.sym, x.charge), !.oddpos = LabelConj(x.oddpos),
                     !.blocks = [i \in 1..Len(x.blocks) |->
                                   LET b == x.blocks[i] IN
                                   [b EXCEPT !.s = Permuted(b.s, rev), !.shape = Permuted(b.shape, rev),
                                             !.data = TransposeData(b.shape, MapData(b.data, VConj), rev)]],
                     !.phases = SelectSeq([i \in 1..Len(x.blocks) |->
                                    [s |-> Permuted(x.blocks[i].s, rev), p |-> PhGet(x.phases, x.blocks[i].s)]],
                                  LAMBDA e : e.p = -1)]
      z == IF ParityOfArray(y) = 1 /\ Len(y.oddpos) % 2 = 1 THEN IPhaseGlobal(y) ELSE y
  IN IF pd THEN IPhaseFlip(z, SelectSeq([i \in 1..n |-> i], LAMBDA i : ~nix[i].dual)) ELSE z

\* FermionicOperator.__lt__ (fermionic_local_operators.py:36-52)
OpLT(a, b) == IF a.dual THEN (IF b.dual THEN a.label > b.label ELSE TRUE)
              ELSE (IF b.dual THEN FALSE ELSE a.label < b.label)
\* resolve_combined_oddpos (fermionic_core.py:46-103): sort with phased swaps, annihilate conjugate neighbours
RECURSIVE ResolveLoop(_, _, _)
ResolveLoop(L, i, phase) ==
  IF i >= Len(L) THEN [L |-> L, phase |-> phase]
  ELSE LET a == L[i]
           b == L[i + 1]
           back == IF i - 1 < 1 THEN 1 ELSE i - 1
       IN IF a.label = b.label
          THEN ResolveLoop(SubSeq(L, 1, i - 1) \o SubSeq(L, i + 2, Len(L)), back,
                           IF b.dual THEN 0 - phase ELSE phase)
          ELSE IF OpLT(b, a)
          THEN ResolveLoop([L EXCEPT ![i] = b, ![i + 1] = a], back, 0 - phase)
          ELSE ResolveLoop(L, i + 1, phase)
IResolveOddpos(left, right, new) ==
  IF left.oddpos = <<>> /\ right.oddpos = <<>> THEN [new EXCEPT !.oddpos = <<>>]
  ELSE LET p0 == IF ParityOfArray(left) = 1 /\ Len(right.oddpos) % 2 = 1 THEN -1 ELSE 1
           r == ResolveLoop(left.oddpos \o right.oddpos, 1, p0)
           y == IF r.phase = -1 THEN IPhaseGlobal(new) ELSE new
       IN [y EXCEPT !.oddpos = r.L]

TotalSize(x) == ProdSeq([i \in 1..Rank(x) |-> SizeTotal(x.ix[i])])
\* tensordot_fermionic (fermionic_core.py:819-904); mode is "fused" or "blockwise" (already resolved)
IFTensordot(a0, b0, axa, axb, mode) ==
  LET left == SelectSeq([i \in 1..Rank(a0) |-> i], LAMBDA i : ~InSeq(axa, i))
      right == SelectSeq([i \in 1..Rank(b0) |-> i], LAMBDA i : ~InSeq(axb, i))
      ncon == Len(axa)
      a1 == IFTranspose(a0, left \o axa, TRUE)
      b1 == IFTranspose(b0, axb \o right, TRUE)
      b2 == IPhaseTranspose(b1, [i \in 1..Rank(b1) |-> IF i <= ncon THEN ncon + 1 - i ELSE i])
      naxa == [i \in 1..ncon |-> Rank(a1) - ncon + i]
      naxb == [i \in 1..ncon |-> i]
      small == TotalSize(a1) <= TotalSize(b2)
      a3 == IF small THEN IPhaseFlip(a1, SelectSeq(naxa, LAMBDA ax : ~a1.ix[ax].dual)) ELSE a1
      b3 == IF small THEN b2 ELSE IPhaseFlip(b2, SelectSeq(naxb, LAMBDA ax : b2.ix[ax].dual))
      a4 == IPhaseSync(a3)
      b4 == IPhaseSync(b3)
      c == IF mode = "fused" THEN ITensordotFused(a4, b4, naxa, naxb) ELSE ITensordotBlockwise(a4, b4, naxa, naxb)
  IN IResolveOddpos(a4, b4, c)

\* fermionic fuse / unfuse (fermionic_core.py:596-722)
IFFuse(x0, groups) ==
  LET perm == FusePerm(x0, groups)
      x1 == IFTranspose(x0, perm, TRUE)
      g2 == [g \in 1..Len(groups) |-> [i \in 1..Len(groups[g]) |-> PosIn(perm, groups[g][i])]]
      dualg == {g \in 1..Len(g2) : x1.ix[g2[g][1]].dual}
      flips == FlattenSeq([g \in 1..Len(g2) |-> IF g \in dualg THEN SelectSeq(g2[g], LAMBDA ax : ~x1.ix[ax].dual) ELSE <<>>])
      vperm == [i \in 1..Rank(x1) |->
                  IF \E g \in dualg : InSeq(g2[g], i)
                  THEN LET g == CHOOSE h \in dualg : InSeq(g2[h], i) IN g2[g][Len(g2[g]) + 1 - PosIn(g2[g], i)]
                  ELSE i]
      x2 == IPhaseFlip(x1, flips)
      x3 == IF dualg = {} THEN x2 ELSE IPhaseTranspose(x2, vperm)
      x4 == IPhaseSync(x3)
  IN IFuseCore(x4, g2)
IFUnfuse(x, ax) ==
  LET ix == x.ix[ax]
      sub == SubIxs(ix)
      nn == Len(sub)
      y == IUnfuse(IPhaseSync(x), ax)
  IN IF ~ix.dual THEN y
     ELSE LET flips == SelectSeq([i \in 1..nn |-> ax + i - 1], LAMBDA a : ~sub[a - ax + 1].dual)
              vperm == [i \in 1..(Rank(x) + nn - 1) |-> IF i >= ax /\ i < ax + nn THEN ax + nn - 1 - (i - ax) ELSE i]
          IN IPhaseTranspose(IPhaseFlip(y, flips), vperm)

---------------------------------------------------------------------------
\* remaining FermionicArray overrides (fermionic_core.py:242-261, 724-816)
IFBinary(x, y, f(_, _), policy) == IBinary(IPhaseSync(x), IPhaseSync(y), f, policy)
\* squeeze / expand_dims go through _map_blocks, which re-keys the sign table
IFSqueeze(x, S) == [ISqueeze(x, S) EXCEPT !.phases = [i \in 1..Len(x.phases) |-> [s |-> Without(x.phases[i].s, S), p |-> x.phases[i].p]]]
IFExpand(x, p, c, dual) ==
  [IExpand(x, p, c, dual) EXCEPT !.phases = [i \in 1..Len(x.phases) |-> [s |-> InsertAt1(x.phases[i].s, p, c), p |-> x.phases[i].p]]]
IFMatmul(x, y) ==
  LET y1 == IF y.ix[1].dual THEN IPhaseFlip(y, <<1>>) ELSE y
      a == IPhaseSync(x)
      b == IPhaseSync(y1)
  IN IResolveOddpos(a, b, ITensordotBlockwise(a, b, <<Rank(x)>>, <<1>>))
IFTrace(x) == IF x.ix[1].dual /\ ~x.ix[2].dual THEN ITrace(IPhaseSync(x)) ELSE ITrace(IPhaseSync(IPhaseFlip(x, <<1>>)))
\* einsum: transpose so that traced pairs come first, grouped by letter as (bra, ket), then the abelian einsum
IFEinsum(x, lhs, rhs) ==
  LET rpos(c) == IF \E i \in 1..Len(rhs) : rhs[i] = c THEN (CHOOSE i \in 1..Len(rhs) : rhs[i] = c) - 1 ELSE -1
      key(i) == <<rpos(lhs[i]), lhs[i], IF x.ix[i].dual THEN 0 ELSE 1>>
      lt(i, j) == LET a == key(i)  b == key(j) IN
                  a[1] < b[1] \/ (a[1] = b[1] /\ (a[2] < b[2] \/ (a[2] = b[2] /\ (a[3] < b[3] \/ (a[3] = b[3] /\ i < j)))))
      perm == SetToSortSeq(1..Rank(x), lt)
      y == IPhaseSync(IFTranspose(x, perm, TRUE))
  IN IEinsum(y, [i \in 1..Len(perm) |-> lhs[perm[i]]], rhs)

---------------------------------------------------------------------------
\* reshape (abelian_core.py:2092-2165): the plan of the axis-matching routine (ReshapeImpl) executed with the
\* array's own unfuse / fuse / expand_dims, one after the other
SubSizesOf(x) ==
  [i \in 1..Rank(x) |-> IF IsFused(x.ix[i]) THEN [j \in 1..Len(SubIxs(x.ix[i])) |-> SizeTotal(SubIxs(x.ix[i])[j])] ELSE <<>>]
ReshapePlan(x, newshape) == CalcReshapeArgs(ShapeOf(x), newshape, SubSizesOf(x))
RUnfuse(x, ax0) == IF IsFermi(x) THEN IFUnfuse(x, ax0 + 1) ELSE IUnfuse(x, ax0 + 1)
RFuse(x, grouping0) ==
  LET g == [k \in 1..Len(grouping0) |-> [q \in 1..Len(grouping0[k]) |-> grouping0[k][q] + 1]]
  IN IF IsFermi(x) THEN IFFuse(x, g) ELSE IFuseCore(x, g)
RExpand(x, ax0) ==
  LET p == ax0 + 1
      d == ExpandDual(x, p, [x |-> 0])
  IN IF IsFermi(x) THEN IFExpand(x, p, Zero, d) ELSE IExpand(x, p, Zero, d)
IReshape(x, newshape) ==
  LET m == ReshapePlan(x, newshape)
      a == FoldLeft(LAMBDA acc, e : RUnfuse(acc, e), x, m.unfuse)
      b == FoldLeft(LAMBDA acc, e : RFuse(acc, e), a, m.fuse)
  IN FoldLeft(LAMBDA acc, e : RExpand(acc, e), b, m.expand)

---------------------------------------------------------------------------
\* decompositions (linalg.py): everything except the numbers LAPACK produces - which blocks exist and in which
\* order, their shapes, the bond index (direction of the second leg, charge table sorted, one entry per block), the
\* charges, the sign tables and the labels of the factors.  A "skeleton" block has no data.
SkelBlk(s, shape) == [s |-> s, shape |-> shape]
MinOf(a, b) == IF a < b THEN a ELSE b
BondIndex(x) ==
  [dual |-> x.ix[2].dual,
   cm |-> SetToSortSeq({[c |-> x.blocks[i].s[2], d |-> MinOf(x.blocks[i].shape[1], x.blocks[i].shape[2])] : i \in 1..Len(x.blocks)},
                       LAMBDA u, w : ChargeLT(u.c, w.c)),
   sub |-> <<>>]
ConjPlain(ix) == [dual |-> ~ix.dual, cm |-> ix.cm, sub |-> <<>>]
\* the left factor of qr / svd: x.copy_with(indices = (x.ix[1], bond), blocks) - keeps charge, sign table and labels
LeftFactorSkel(x) ==
  [x EXCEPT !.ix = <<x.ix[1], BondIndex(x)>>,
            !.blocks = [i \in 1..Len(x.blocks) |->
                          SkelBlk(x.blocks[i].s, <<x.blocks[i].shape[1], MinOf(x.blocks[i].shape[1], x.blocks[i].shape[2])>>)]]
\* the right factor: a fresh array of charge zero on (conj bond, x.ix[2]); fermionic: sign flip of the odd charges when the
\* inner leg is a bra
RightFactorSkel(x) ==
  LET bond == BondIndex(x)
      blocks == [i \in 1..Len(x.blocks) |->
                   SkelBlk(<<x.blocks[i].s[2], x.blocks[i].s[2]>>,
                           <<MinOf(x.blocks[i].shape[1], x.blocks[i].shape[2]), x.blocks[i].shape[2]>>)]
      odd == SelectSeq(blocks, LAMBDA b : Parity(x.sym, b.s[1]) = 1)
  IN [x EXCEPT !.ix = <<ConjPlain(bond), x.ix[2]>>, !.charge = Zero, !.blocks = blocks, !.oddpos = <<>>,
               !.phases = IF IsFermi(x) /\ ~bond.dual THEN [i \in 1..Len(odd) |-> [s |-> odd[i].s, p |-> -1]] ELSE <<>>]
\* singular values / eigenvalues: one vector block per matrix block, keyed by the column charge, in block order
ValuesSkel(x) == [i \in 1..Len(x.blocks) |-> [c |-> x.blocks[i].s[2], shape |-> <<MinOf(x.blocks[i].shape[1], x.blocks[i].shape[2])>>]]
\* eigenvectors: a.copy_with(blocks) of the SYNCHRONISED array (fermionic), same sectors and shapes
EighVectorsSkel(a) ==
  LET y == IF IsFermi(a) THEN IPhaseSync(a) ELSE a IN
  [y EXCEPT !.blocks = [i \in 1..Len(y.blocks) |-> SkelBlk(y.blocks[i].s, y.blocks[i].shape)]]
\* solve: b.copy_with(blocks, indices = (conj a.ix[2]), charge = c_b - c_a) on the synchronised operands; one block per
\* block of a whose row charge b stores; fermionic: sign flip on odd charges when the solution's leg is a bra
SolveSkel(a0, b0) ==
  LET a == IF IsFermi(a0) THEN IPhaseSync(a0) ELSE a0
      b == IF IsFermi(b0) THEN IPhaseSync(b0) ELSE b0
      used == SelectSeq(a.blocks, LAMBDA blk : \E j \in 1..Len(b.blocks) : b.blocks[j].s = <<blk.s[1]>>)
      blocks == [i \in 1..Len(used) |-> SkelBlk(<<used[i].s[2]>>, <<used[i].shape[2]>>)]
      ix == [dual |-> ~a.ix[2].dual, cm |-> a.ix[2].cm, sub |-> a.ix[2].sub]
      odd == SelectSeq(blocks, LAMBDA blk : Parity(a.sym, blk.s[1]) = 1)
      flipped == [b EXCEPT !.ix = <<ix>>, !.charge = Combine(a.sym, b.charge, Neg(a.sym, a.charge)), !.blocks = blocks,
                    !.phases = IF IsFermi(a) /\ ix.dual THEN [i \in 1..Len(odd) |-> [s |-> odd[i].s, p |-> -1]] ELSE <<>>]
      \* odd-parity matrix (solve_fermionic after the repair of F15): the solution carries the conjugate labels of `a`
      \* followed by those of `b` (resolved), and the global sign with which `a @ x` resolves back to `b`
      pa == ParityOfArray(a)
      adag == [i \in 1..Len(a.oddpos) |-> [label |-> a.oddpos[Len(a.oddpos) + 1 - i].label, dual |-> ~a.oddpos[Len(a.oddpos) + 1 - i].dual]]
      W == ResolveLoop(adag \o b.oddpos, 1, 1).L
      p2 == ResolveLoop(a.oddpos \o W, 1, IF pa = 1 /\ Len(W) % 2 = 1 THEN -1 ELSE 1).phase
  IN IF ~IsFermi(a) \/ a.oddpos = <<>> THEN flipped
     ELSE [(IF p2 = -1 THEN IPhaseGlobal(flipped) ELSE flipped) EXCEPT !.oddpos = W]
\* a recorded array has the skeleton m
SkelEq(m, r) ==
  /\ r.ix = m.ix /\ r.charge = m.charge /\ r.sym = m.sym /\ r.kind = m.kind
  /\ [i \in 1..Len(r.blocks) |-> SkelBlk(r.blocks[i].s, r.blocks[i].shape)] = m.blocks
  /\ {q \in SeqRange(r.phases) : q.p = -1} = {q \in SeqRange(m.phases) : q.p = -1}
  /\ r.oddpos = m.oddpos
VecSkelEq(m, r) == [i \in 1..Len(r.blocks) |-> [c |-> r.blocks[i].c, shape |-> r.blocks[i].shape]] = m

=============================================================================
