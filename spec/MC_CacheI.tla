----------------------------- MODULE MC_CacheI -----------------------------
EXTENDS MC_Cache
\* thread 1 fuses array A then B, thread 2 fuses B then A (two distinct keys)
ProgA == (1 :> <<[key |-> "A", plan |-> "pA"], [key |-> "B", plan |-> "pB"]>>) @@
         (2 :> <<[key |-> "B", plan |-> "pB"], [key |-> "A", plan |-> "pA"]>>)
\* three threads, one call each, two of them on the same array
ProgB == (1 :> <<[key |-> "A", plan |-> "pA"]>>) @@ (2 :> <<[key |-> "A", plan |-> "pA"]>>) @@
         (3 :> <<[key |-> "B", plan |-> "pB"]>>)
\* four threads, one call each, three distinct keys (thorough tier: no schedule export, invariants only)
ProgC == (1 :> <<[key |-> "A", plan |-> "pA"]>>) @@ (2 :> <<[key |-> "A", plan |-> "pA"]>>) @@
         (3 :> <<[key |-> "B", plan |-> "pB"]>>) @@ (4 :> <<[key |-> "C", plan |-> "pC"]>>)
\* three threads, two calls each
ProgD == (1 :> <<[key |-> "A", plan |-> "pA"], [key |-> "B", plan |-> "pB"]>>) @@
         (2 :> <<[key |-> "B", plan |-> "pB"], [key |-> "A", plan |-> "pA"]>>) @@
         (3 :> <<[key |-> "A", plan |-> "pA"], [key |-> "C", plan |-> "pC"]>>)
\* four threads, two calls each; five threads, one call each
ProgE == (1 :> <<[key |-> "A", plan |-> "pA"], [key |-> "B", plan |-> "pB"]>>) @@
         (2 :> <<[key |-> "B", plan |-> "pB"], [key |-> "A", plan |-> "pA"]>>) @@
         (3 :> <<[key |-> "A", plan |-> "pA"], [key |-> "C", plan |-> "pC"]>>) @@
         (4 :> <<[key |-> "C", plan |-> "pC"], [key |-> "B", plan |-> "pB"]>>)
ProgF == (1 :> <<[key |-> "A", plan |-> "pA"]>>) @@ (2 :> <<[key |-> "A", plan |-> "pA"]>>) @@
         (3 :> <<[key |-> "B", plan |-> "pB"]>>) @@ (4 :> <<[key |-> "C", plan |-> "pC"]>>) @@
         (5 :> <<[key |-> "B", plan |-> "pB"]>>)
\* negative control: a cache key that forgets an argument (two different plans filed under one key) - ReturnsOwnPlan and
\* PlanInHand must be violated, which shows the invariants are not vacuous on the instances above
ProgBad == (1 :> <<[key |-> "A", plan |-> "pA"]>>) @@ (2 :> <<[key |-> "A", plan |-> "pA2"]>>)
=============================================================================
