---------------------------- MODULE ReshapeImpl ----------------------------
(***************************************************************************)
(* Transcription of the axis-matching routine behind AbelianArray.reshape  *)
(* (symmray/abelian_core.py, calc_reshape_args), branch by branch.         *)
(*                                                                         *)
(*   CalcReshapeArgs(shape, newshape, subsizes)                            *)
(*     = [ok |-> TRUE, unfuse, fuse, expand]   the returned plan, or       *)
(*       [ok |-> FALSE, ...]                   where Python raises         *)
(*                                                                         *)
(* shape, newshape : sequences of positive integers; subsizes[i] = <<>>    *)
(* for an axis that was not fused (None in Python) or the sizes it was     *)
(* fused from.  Axis numbers in the plan are 0-based as in Python; the     *)
(* sequences here are 1-based, so a Python index i is position i + 1.      *)
(* The labels of the routine's `term` list are records: "o" output axis,   *)
(* "s" axis to squeeze, "u" k-th unfuse, "g" k-th fuse group.              *)
(***************************************************************************)
EXTENDS Naturals, Sequences, FiniteSets

LabO == [t |-> "o", n |-> 0]
LabS == [t |-> "s", n |-> 0]
LabU(n) == [t |-> "u", n |-> n]
LabG(n) == [t |-> "g", n |-> n]
RepSeq(x, n) == [q \in 1..n |-> x]
RevSeq(s) == [q \in 1..Len(s) |-> s[Len(s) + 1 - q]]

\* subsizes[i] == newshape[j : j + len(subsizes[i])]   (j is a position here; a short slice is not equal)
SliceEq(sub, new, j) == j + Len(sub) - 1 <= Len(new) /\ \A q \in 1..Len(sub) : new[j + q - 1] = sub[q]

\* "while di < dj: di *= shape[i]; ..." - running off the end is an IndexError in Python
RECURSIVE FuseScan(_, _, _, _, _)
FuseScan(shape, i, di, dj, s) ==
  IF di >= dj THEN [ok |-> di = dj, why |-> "value", i |-> i, s |-> s]
  ELSE IF i > Len(shape) THEN [ok |-> FALSE, why |-> "index", i |-> i, s |-> s]
  ELSE FuseScan(shape, i + 1, di * shape[i], dj, s + 1)

\* the main loop (lines 441-495)
RECURSIVE MatchLoop(_, _, _, _)
MatchLoop(shape, new, subs, st) ==
  IF st.err # "" \/ st.i > Len(shape) \/ st.j > Len(new) THEN st
  ELSE LET di == shape[st.i]
           dj == new[st.j]
           sb == subs[st.i]
       IN IF sb # <<>> /\ SliceEq(sb, new, st.j)
          THEN MatchLoop(shape, new, subs,
                 [st EXCEPT !.term = Append(@, LabU(Len(st.unf))), !.unf = Append(@, Len(sb)),
                            !.i = @ + 1, !.j = @ + Len(sb), !.k = @ + Len(sb)])
          ELSE IF di = dj
          THEN MatchLoop(shape, new, subs, [st EXCEPT !.term = Append(@, LabO), !.i = @ + 1, !.j = @ + 1, !.k = @ + 1])
          ELSE IF di = 1
          THEN MatchLoop(shape, new, subs, [st EXCEPT !.term = Append(@, LabS), !.anys = TRUE, !.i = @ + 1])
          ELSE IF dj = 1
          THEN MatchLoop(shape, new, subs, [st EXCEPT !.exp = Append(@, st.k), !.j = @ + 1])
          ELSE IF di < dj
          THEN LET r == FuseScan(shape, st.i + 1, di, dj, 1) IN
               IF ~r.ok THEN [st EXCEPT !.err = r.why]
               ELSE MatchLoop(shape, new, subs,
                      [st EXCEPT !.term = @ \o RepSeq(LabG(Len(st.fus)), r.s), !.fus = Append(@, r.s), !.anyf = TRUE,
                                 !.i = r.i, !.j = @ + 1, !.k = @ + 1])
          ELSE [st EXCEPT !.err = "value"]

\* trailing axes: leftover input axes are squeezed, leftover output axes are expansions - both must have size one
Trailing(shape, new, st) ==
  LET ni == Len(shape) - st.i + 1
      nj == Len(new) - st.j + 1
  IN IF (\E q \in st.i..Len(shape) : shape[q] # 1) \/ (\E q \in st.j..Len(new) : new[q] # 1)
     THEN [st EXCEPT !.err = "value"]
     ELSE [st EXCEPT !.term = @ \o RepSeq(LabS, IF ni > 0 THEN ni ELSE 0),
                     !.anys = @ \/ ni > 0,
                     !.exp = @ \o RepSeq(st.k, IF nj > 0 THEN nj ELSE 0)]

\* lines 504-509
RECURSIVE DoUnfuse(_, _, _, _)
DoUnfuse(term, unf, n, axs) ==
  IF n >= Len(unf) THEN [term |-> term, axs |-> axs]
  ELSE LET p == CHOOSE q \in 1..Len(term) : term[q] = LabU(n) IN
       DoUnfuse(SubSeq(term, 1, p - 1) \o RepSeq(LabO, unf[n + 1]) \o SubSeq(term, p + 1, Len(term)), unf, n + 1, Append(axs, p - 1))

\* lines 511-558: squeezes become (parts of) fuse groups.  r = [term, fus, err]
SetRange(term, a, b, x) == [q \in 1..Len(term) |-> IF q >= a /\ q <= b THEN x ELSE term[q]]
SqueezeLeft(term, fus) ==
  \* leading run of "s": grouped into the first axis on their right
  IF term[1] # LabS THEN [term |-> term, fus |-> fus, p |-> 2, err |-> FALSE]
  ELSE IF \A q \in 1..Len(term) : term[q] = LabS THEN [term |-> term, fus |-> fus, p |-> 0, err |-> TRUE]   \* IndexError
  ELSE LET p0 == CHOOSE q \in 1..Len(term) : term[q] # LabS /\ \A w \in 1..(q - 1) : term[w] = LabS
           lab == term[p0]
           isg == lab.t = "g"
           g == IF isg THEN lab ELSE LabG(Len(fus))
           fus1 == IF isg THEN fus ELSE Append(fus, 1)
           fus2 == [fus1 EXCEPT ![g.n + 1] = @ + (p0 - 1)]
       IN [term |-> SetRange(term, 1, p0, g), fus |-> fus2, p |-> p0 + 1, err |-> FALSE]
RECURSIVE SqueezeRest(_, _, _)
SqueezeRest(term, fus, p) ==
  IF p > Len(term) THEN [term |-> term, fus |-> fus]
  ELSE IF term[p] # LabS THEN SqueezeRest(term, fus, p + 1)
  ELSE LET left == term[p - 1]
           isg == left.t = "g"
           g == IF isg THEN left ELSE LabG(Len(fus))
           fus1 == IF isg THEN fus ELSE Append(fus, 1)
           \* the run of "s" starting at p
           e == CHOOSE q \in p..Len(term) : (\A w \in p..q : term[w] = LabS) /\ (q = Len(term) \/ term[q + 1] # LabS)
           term1 == SetRange(SetRange(term, p - 1, p - 1, g), p, e, g)
           fus2 == [fus1 EXCEPT ![g.n + 1] = @ + (e - p + 1)]
       IN SqueezeRest(term1, fus2, e + 2)

\* lines 560-584.  st = [term, p, cur, out]
TotalLen(groups) == LET RECURSIVE T(_) T(k) == IF k = 0 THEN 0 ELSE Len(groups[k]) + T(k - 1) IN T(Len(groups))
RECURSIVE FuseLoop(_, _, _, _, _)
FuseLoop(term, fus, p, cur, out) ==
  IF p > Len(term) THEN (IF cur # <<>> THEN Append(out, cur) ELSE out)
  ELSE IF term[p].t # "g"
       THEN IF cur # <<>>
            THEN LET i0 == p - TotalLen(cur)
                     ng == Len(cur)
                 IN FuseLoop(SubSeq(term, 1, i0 - 1) \o RepSeq(LabO, ng) \o SubSeq(term, p, Len(term)), fus, i0 + ng, <<>>, Append(out, cur))
            ELSE FuseLoop(term, fus, p + 1, cur, out)
       ELSE LET s == fus[term[p].n + 1] IN
            FuseLoop(term, fus, p + s, Append(cur, [q \in 1..s |-> (p - 1) + (q - 1)]), out)

\* why: "value" = ValueError (shape mismatch), "index" = IndexError (running off the end of a list)
RaiseOf(why) == [ok |-> FALSE, why |-> why, unfuse |-> <<>>, fuse |-> <<>>, expand |-> <<>>]
\* the greedy parse (_calc_reshape_args)
CalcGreedy(shape, new, subs) ==
  LET st0 == [i |-> 1, j |-> 1, k |-> 0, term |-> <<>>, unf |-> <<>>, fus |-> <<>>, exp |-> <<>>,
              anys |-> FALSE, anyf |-> FALSE, err |-> ""]
      st1 == MatchLoop(shape, new, subs, st0)
  IN IF st1.err # "" THEN RaiseOf(st1.err)
     ELSE LET st2 == Trailing(shape, new, st1) IN
          IF st2.err # "" THEN RaiseOf(st2.err) ELSE
          LET
              un == DoUnfuse(st2.term, st2.unf, 0, <<>>)
              sq == IF st2.anys
                    THEN LET a == SqueezeLeft(un.term, st2.fus) IN
                         IF a.err THEN [term |-> un.term, fus |-> st2.fus, err |-> TRUE]
                         ELSE LET b == SqueezeRest(a.term, a.fus, a.p) IN [term |-> b.term, fus |-> b.fus, err |-> FALSE]
                    ELSE [term |-> un.term, fus |-> st2.fus, err |-> FALSE]
          IN IF sq.err THEN RaiseOf("index")
             ELSE [ok |-> TRUE, why |-> "", unfuse |-> un.axs,
                   fuse |-> IF st2.anyf \/ st2.anys THEN FuseLoop(sq.term, sq.fus, 1, <<>>, <<>>) ELSE <<>>,
                   expand |-> RevSeq(st2.exp)]
\* NEGATIVE CONTROL ONLY (never used by the trace spec or the machine): the routine as it was before the repair of F17 -
\* one greedy parse, leftover axes taken to be squeezable / expansions without looking at their size, no retry
TrailingOrig(shape, new, st) ==
  LET ni == Len(shape) - st.i + 1
      nj == Len(new) - st.j + 1
  IN [st EXCEPT !.term = @ \o RepSeq(LabS, IF ni > 0 THEN ni ELSE 0),
                !.anys = @ \/ ni > 0,
                !.exp = @ \o RepSeq(st.k, IF nj > 0 THEN nj ELSE 0)]
CalcOriginal(shape, new, subs) ==
  LET st0 == [i |-> 1, j |-> 1, k |-> 0, term |-> <<>>, unf |-> <<>>, fus |-> <<>>, exp |-> <<>>,
              anys |-> FALSE, anyf |-> FALSE, err |-> ""]
      st1 == MatchLoop(shape, new, subs, st0)
  IN IF st1.err # "" THEN RaiseOf(st1.err)
     ELSE LET st2 == TrailingOrig(shape, new, st1)
              un == DoUnfuse(st2.term, st2.unf, 0, <<>>)
              sq == IF st2.anys
                    THEN LET a == SqueezeLeft(un.term, st2.fus) IN
                         IF a.err THEN [term |-> un.term, fus |-> st2.fus, err |-> TRUE]
                         ELSE LET b == SqueezeRest(a.term, a.fus, a.p) IN [term |-> b.term, fus |-> b.fus, err |-> FALSE]
                    ELSE [term |-> un.term, fus |-> st2.fus, err |-> FALSE]
          IN IF sq.err THEN RaiseOf("index")
             ELSE [ok |-> TRUE, why |-> "", unfuse |-> un.axs,
                   fuse |-> IF st2.anyf \/ st2.anys THEN FuseLoop(sq.term, sq.fus, 1, <<>>, <<>>) ELSE <<>>,
                   expand |-> RevSeq(st2.exp)]
\* calc_reshape_args: unfusing is matched greedily; when that cannot give the new shape, the fused axes are, one after
\* the other (first success wins, recursively), kept as they are
RECURSIVE CalcReshapeArgs(_, _, _)
CalcReshapeArgs(shape, new, subs) ==
  LET g == CalcGreedy(shape, new, subs) IN
  IF g.ok \/ g.why = "index" THEN g     \* only a ValueError is caught
  ELSE LET fusedax == SelectSeq([i \in 1..Len(subs) |-> i], LAMBDA i : subs[i] # <<>>)
           try(i) == CalcReshapeArgs(shape, new, [subs EXCEPT ![i] = <<>>])
           RECURSIVE First(_)
           \* (an IndexError inside a retry is not caught by "except ValueError" either: it propagates)
           First(k) == IF k > Len(fusedax) THEN g
                       ELSE LET r == try(fusedax[k]) IN IF r.ok \/ r.why = "index" THEN r ELSE First(k + 1)
       IN First(1)
=============================================================================
