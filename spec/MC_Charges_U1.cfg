SPECIFICATION Spec
CONSTANTS
  Sym = "U1"
  BoxK = 6
  MaxRank = 3
INVARIANT SectorsExact
CHECK_DEADLOCK FALSE
