------------------------------ MODULE Charges ------------------------------
(***************************************************************************)
(* The abelian charge groups of symmray (symmetries.py) as mathematical    *)
(* objects.  A charge is ALWAYS a pair <<a,b>> (b = 0 for the one-         *)
(* component groups), so that JSON traces and model values coincide.       *)
(*                                                                         *)
(* This module is the denotational ("what the group IS") layer: it is      *)
(* written from the definition of the groups, not from the code.           *)
(***************************************************************************)
EXTENDS Integers, Sequences, FiniteSets

Syms == {"Z2", "Z4", "U1", "Z2Z2", "U1U1"}

Zero == <<0, 0>>

ValidCharge(sym, c) ==
  CASE sym = "Z2"   -> c[1] \in {0, 1} /\ c[2] = 0
    [] sym = "Z4"   -> c[1] \in {0, 1, 2, 3} /\ c[2] = 0
    [] sym = "U1"   -> c[1] \in Int /\ c[2] = 0
    [] sym = "Z2Z2" -> c[1] \in {0, 1} /\ c[2] \in {0, 1}
    [] sym = "U1U1" -> c[1] \in Int /\ c[2] \in Int

Combine(sym, c, d) ==
  CASE sym = "Z2"   -> <<(c[1] + d[1]) % 2, 0>>
    [] sym = "Z4"   -> <<(c[1] + d[1]) % 4, 0>>
    [] sym = "U1"   -> <<c[1] + d[1], 0>>
    [] sym = "Z2Z2" -> <<(c[1] + d[1]) % 2, (c[2] + d[2]) % 2>>
    [] sym = "U1U1" -> <<c[1] + d[1], c[2] + d[2]>>

Neg(sym, c) ==
  CASE sym = "Z2"   -> c
    [] sym = "Z4"   -> <<(4 - c[1]) % 4, 0>>
    [] sym = "U1"   -> <<0 - c[1], 0>>
    [] sym = "Z2Z2" -> c
    [] sym = "U1U1" -> <<0 - c[1], 0 - c[2]>>

\* contribution of a charge on an index of direction `dual`
Sign(sym, c, dual) == IF dual THEN Neg(sym, c) ELSE c

Parity(sym, c) ==
  CASE sym \in {"Z2", "Z4", "U1"} -> c[1] % 2
    [] sym \in {"Z2Z2", "U1U1"}   -> (c[1] + c[2]) % 2

RECURSIVE CombineSeq(_, _)
CombineSeq(sym, cs) ==
  IF cs = <<>> THEN Zero ELSE Combine(sym, Head(cs), CombineSeq(sym, Tail(cs)))

\* signed combination of a sector given the directions of its indices
SignedCombine(sym, sector, duals) ==
  CombineSeq(sym, [i \in 1..Len(sector) |-> Sign(sym, sector[i], duals[i])])

\* order used by Python's sorted() on ints / 2-tuples of ints
ChargeLT(c, d) == c[1] < d[1] \/ (c[1] = d[1] /\ c[2] < d[2])
ChargeLE(c, d) == c = d \/ ChargeLT(c, d)

\* lexicographic order on sequences of charges (Python tuple comparison)
RECURSIVE SectorLT(_, _)
SectorLT(s, t) ==
  IF s = <<>> THEN t # <<>>
  ELSE IF t = <<>> THEN FALSE
  ELSE IF Head(s) = Head(t) THEN SectorLT(Tail(s), Tail(t))
  ELSE ChargeLT(Head(s), Head(t))

=============================================================================
