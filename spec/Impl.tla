-------------------------------- MODULE Impl --------------------------------
(***************************************************************************)
(* The IMPLEMENTATION-SHAPED layer: operators that compute results the way  *)
(* symmray does - block by block, in dict order, with fuse plans, slices    *)
(* and zero fills - so that (a) TLC can check "Impl satisfies Props" on     *)
(* every small instance (Machine.tla) and (b) every recorded event can be   *)
(* compared with the model's prediction field by field (L2, EventDrift).    *)
(*                                                                          *)
(*   dict            -> sequence in insertion order                          *)
(*   numpy block     -> [s, shape, data (row major), dt, exact]              *)
(*   BlockIndex      -> [dual, cm (sorted), sub]                             *)
(* Section comments give the code location that is transcribed.              *)
(***************************************************************************)
EXTENDS LocalOps

---------------------------------------------------------------------------
\* numpy kernels on row-major data

PosIn(seq, e) == CHOOSE i \in 1..Len(seq) : seq[i] = e
InSeq(seq, e) == \E i \in 1..Len(seq) : seq[i] = e
SumSeqV(seq) == FoldLeft(LAMBDA acc, e : VAdd(acc, e), VZero, seq)
Zeros(shape) == [p \in 1..ProdSeq(shape) |-> VZero]

\* np.transpose(block, perm): new axis j is old axis perm[j] (1-based)
TransposeData(shape, data, perm) ==
  LET newshape == Permuted(shape, perm)
  IN [p \in 1..Len(data) |->
        LET idx == Unravel(p - 1, newshape)
            old == [i \in 1..Len(shape) |-> idx[PosIn(perm, i)]]
        IN data[Ravel(old, shape) + 1]]

\* np.tensordot(a, b, axes=(axa, axb))
TensordotData(sa, da, sb, db, axa, axb) ==
  LET fa == SelectSeq([i \in 1..Len(sa) |-> i], LAMBDA i : ~InSeq(axa, i))
      fb == SelectSeq([i \in 1..Len(sb) |-> i], LAMBDA i : ~InSeq(axb, i))
      rshape == [i \in 1..Len(fa) |-> sa[fa[i]]] \o [i \in 1..Len(fb) |-> sb[fb[i]]]
      cshape == [i \in 1..Len(axa) |-> sa[axa[i]]]
      ncon == ProdSeq(cshape)
  IN [shape |-> rshape,
      data |-> [p \in 1..ProdSeq(rshape) |->
                  LET ridx == Unravel(p - 1, rshape) IN
                  SumSeqV([q \in 1..ncon |->
                     LET cidx == Unravel(q - 1, cshape)
                         ia == [i \in 1..Len(sa) |-> IF InSeq(axa, i) THEN cidx[PosIn(axa, i)] ELSE ridx[PosIn(fa, i)]]
                         ib == [i \in 1..Len(sb) |-> IF InSeq(axb, i) THEN cidx[PosIn(axb, i)] ELSE ridx[Len(fa) + PosIn(fb, i)]]
                     IN VMul(da[Ravel(ia, sa) + 1], db[Ravel(ib, sb) + 1])])]]

AddData(da, db) == [p \in 1..Len(da) |-> VAdd(da[p], db[p])]
MapData(d, f(_)) == [p \in 1..Len(d) |-> f(d[p])]

\* block[..., lo:hi, ...] along (1-based) axis ax
SliceData(shape, data, ax, lo, hi) ==
  LET nshape == [shape EXCEPT ![ax] = hi - lo]
  IN [shape |-> nshape,
      data |-> [p \in 1..ProdSeq(nshape) |->
                  LET idx == Unravel(p - 1, nshape) IN data[Ravel([idx EXCEPT ![ax] = idx[ax] + lo], shape) + 1]]]

\* target[offsets : offsets + shape] = data   (offs: 0-based start per axis)
InsertData(tshape, tdata, shape, data, offs) ==
  [p \in 1..Len(tdata) |->
     LET idx == Unravel(p - 1, tshape)
         inside == \A i \in 1..Len(shape) : idx[i] >= offs[i] /\ idx[i] < offs[i] + shape[i]
     IN IF inside THEN data[Ravel([i \in 1..Len(shape) |-> idx[i] - offs[i]], shape) + 1] ELSE tdata[p]]

---------------------------------------------------------------------------
\* indices (abelian_core.py:99-147, 296-312)
DropChargesSub(ix, cs) ==
  IF ix.sub = <<>> THEN <<>>
  ELSE <<[ixs |-> SubIxs(ix), ext |-> SelectSeq(SubExt(ix), LAMBDA e : e.c \notin cs)]>>
DropCharges(ix, cs) ==
  [dual |-> ix.dual, cm |-> SelectSeq(ix.cm, LAMBDA e : e.c \notin cs), sub |-> DropChargesSub(ix, cs)]
\* charges of index position i that no stored sector uses
UnusedCharges(ix, i, sectors) == CmChargeSet(ix) \ {sectors[k][i] : k \in 1..Len(sectors)}
SyncIndices(ixs, sectors) ==
  [i \in 1..Len(ixs) |-> LET cs == UnusedCharges(ixs[i], i, sectors) IN IF cs = {} THEN ixs[i] ELSE DropCharges(ixs[i], cs)]

With(x, f, v) == [x EXCEPT ![f] = v]
Blk(s, shape, data, like) == [s |-> s, shape |-> shape, data |-> data, dt |-> like.dt, exact |-> TRUE]
NoPhases(x) == IF IsFermi(x) THEN x.phases ELSE <<>>

---------------------------------------------------------------------------
\* structural operations of AbelianArray (abelian_core.py:1690-1850)
ITranspose(x, perm) ==
  [x EXCEPT !.ix = Permuted(x.ix, perm),
            !.blocks = [i \in 1..Len(x.blocks) |->
                          LET b == x.blocks[i] IN
                          [b EXCEPT !.s = Permuted(b.s, perm), !.shape = Permuted(b.shape, perm),
                                    !.data = TransposeData(b.shape, b.data, perm)]]]
IConj(x) ==
  [x EXCEPT !.ix = [i \in 1..Len(x.ix) |-> ConjIndex(x.ix[i])],
            !.charge = Neg(x.sym, x.charge),
            !.blocks = [i \in 1..Len(x.blocks) |-> [x.blocks[i] EXCEPT !.data = MapData(x.blocks[i].data, VConj)]]]
IDagger(x) == ITranspose(IConj(x), Reversal(Rank(x)))
ISqueeze(x, S) ==
  [x EXCEPT !.ix = Without(x.ix, S),
            !.blocks = [i \in 1..Len(x.blocks) |->
                          LET b == x.blocks[i] IN [b EXCEPT !.s = Without(b.s, S), !.shape = Without(b.shape, S)]]]
IExpand(x, p, c, dual) ==
  [x EXCEPT !.ix = InsertAt1(x.ix, p, [dual |-> dual, cm |-> <<[c |-> c, d |-> 1]>>, sub |-> <<>>]),
            !.charge = IF c = Zero THEN x.charge ELSE Combine(x.sym, x.charge, Sign(x.sym, c, dual)),
            !.blocks = [i \in 1..Len(x.blocks) |->
                          LET b == x.blocks[i] IN [b EXCEPT !.s = InsertAt1(b.s, p, c), !.shape = InsertAt1(b.shape, p, 1)]]]

---------------------------------------------------------------------------
\* blockwise contraction (abelian_core.py:2372-2447)
RECURSIVE AccumPairs(_, _, _)
\* pairs : sequence of [s (new sector), a (block of a), b (block of b)] in the order the code meets them;
\* acc   : sequence of [s, shape, data] in order of first appearance
AccumPairs(pairs, acc, axes) ==
  IF pairs = <<>> THEN acc
  ELSE LET pr == Head(pairs)
           td == TensordotData(pr.a.shape, pr.a.data, pr.b.shape, pr.b.data, axes[1], axes[2])
           hit == {i \in 1..Len(acc) : acc[i].s = pr.s}
       IN IF hit = {} THEN AccumPairs(Tail(pairs), Append(acc, [s |-> pr.s, shape |-> td.shape, data |-> td.data]), axes)
          ELSE LET i == CHOOSE j \in hit : TRUE IN
               AccumPairs(Tail(pairs), [acc EXCEPT ![i].data = AddData(acc[i].data, td.data)], axes)
ITensordotBlockwise(a, b, axa, axb) ==
  LET left == SelectSeq([i \in 1..Rank(a) |-> i], LAMBDA i : ~InSeq(axa, i))
      right == SelectSeq([i \in 1..Rank(b) |-> i], LAMBDA i : ~InSeq(axb, i))
      pairs == FlattenSeq([i \in 1..Len(a.blocks) |->
                 LET ba == a.blocks[i]
                     match == SelectSeq(b.blocks, LAMBDA bb : Permuted(bb.s, axb) = Permuted(ba.s, axa))
                 IN [j \in 1..Len(match) |-> [s |-> Permuted(ba.s, left) \o Permuted(match[j].s, right),
                                              a |-> ba, b |-> match[j]]]])
      acc == AccumPairs(pairs, <<>>, <<axa, axb>>)
      like == IF a.blocks # <<>> THEN a.blocks[1] ELSE [dt |-> "float64"]
      ixs == Permuted(a.ix, left) \o Permuted(b.ix, right)
      sectors == [i \in 1..Len(acc) |-> acc[i].s]
  IN [a EXCEPT !.ix = SyncIndices(ixs, sectors),
               !.charge = Combine(a.sym, a.charge, b.charge),
               !.blocks = [i \in 1..Len(acc) |-> Blk(acc[i].s, acc[i].shape, acc[i].data, like)]]

\* drop_misaligned_sectors (abelian_core.py:2450-2522)
IDropMisaligned(a, b, axa, axb) ==
  LET suba == {Permuted(a.blocks[i].s, axa) : i \in 1..Len(a.blocks)}
      subb == {Permuted(b.blocks[i].s, axb) : i \in 1..Len(b.blocks)}
      ok == suba \cap subb
      ka == SelectSeq(a.blocks, LAMBDA bl : Permuted(bl.s, axa) \in ok)
      kb == SelectSeq(b.blocks, LAMBDA bl : Permuted(bl.s, axb) \in ok)
  IN <<[a EXCEPT !.blocks = ka, !.ix = SyncIndices(a.ix, [i \in 1..Len(ka) |-> ka[i].s])],
       [b EXCEPT !.blocks = kb, !.ix = SyncIndices(b.ix, [i \in 1..Len(kb) |-> kb[i].s])]>>

---------------------------------------------------------------------------
\* fuse plan (calc_fuse_group_info + calc_fuse_block_info, abelian_core.py:593-803)
\* groups: sequence of non-empty sequences of 1-based axes
GroupOf(groups, ax) == IF \E g \in 1..Len(groups) : InSeq(groups[g], ax)
                       THEN CHOOSE g \in 1..Len(groups) : InSeq(groups[g], ax) ELSE 0
IsSinglet(groups, g) == Len(groups[g]) = 1
\* the fused charge and size of the sub-sector of group g in sector s
GroupCharge(x, groups, g, s) ==
  CombineSeq(x.sym, [i \in 1..Len(groups[g]) |->
     Sign(x.sym, s[groups[g][i]], x.ix[groups[g][1]].dual # x.ix[groups[g][i]].dual)])
GroupSize(x, groups, g, s) == ProdSeq([i \in 1..Len(groups[g]) |-> SizeOf(x.ix[groups[g][i]], s[groups[g][i]])])
SubSector(groups, g, s) == [i \in 1..Len(groups[g]) |-> s[groups[g][i]]]
\* new sector / shape of a block
PlanSector(x, groups, s) ==
  LET before == FuseBefore(x, groups)
      after == FuseAfter(x, groups)
  IN [i \in 1..Len(before) |-> s[before[i]]]
     \o [g \in 1..Len(groups) |-> IF IsSinglet(groups, g) THEN s[groups[g][1]] ELSE GroupCharge(x, groups, g, s)]
     \o [i \in 1..Len(after) |-> s[after[i]]]
PlanShape(x, groups, s) ==
  LET before == FuseBefore(x, groups)
      after == FuseAfter(x, groups)
  IN [i \in 1..Len(before) |-> SizeOf(x.ix[before[i]], s[before[i]])]
     \o [g \in 1..Len(groups) |-> GroupSize(x, groups, g, s)]
     \o [i \in 1..Len(after) |-> SizeOf(x.ix[after[i]], s[after[i]])]
\* sub-sectors of group g over all stored sectors, sorted as Python sorts tuples
SortedSubSectors(x, groups, g) ==
  SetToSortSeq({SubSector(groups, g, x.blocks[i].s) : i \in 1..Len(x.blocks)}, SectorLT)
\* extents in the order the code builds them: charges by first appearance while walking the sorted sub-sectors
RECURSIVE BuildExt(_, _)
BuildExt(items, ext) ==
  \* items : remaining [ss, c, d] in sorted sub-sector order
  IF items = <<>> THEN ext
  ELSE LET it == Head(items)
           hit == {i \in 1..Len(ext) : ext[i].c = it.c}
       IN IF hit = {} THEN BuildExt(Tail(items), Append(ext, [c |-> it.c, subs |-> <<[ss |-> it.ss, d |-> it.d]>>]))
          ELSE LET i == CHOOSE j \in hit : TRUE IN
               BuildExt(Tail(items), [ext EXCEPT ![i].subs = Append(ext[i].subs, [ss |-> it.ss, d |-> it.d])])
FusedIndex(x, groups, g) ==
  LET gi == groups[g]
      cd(ss) == [c |-> CombineSeq(x.sym, [i \in 1..Len(gi) |-> Sign(x.sym, ss[i], x.ix[gi[1]].dual # x.ix[gi[i]].dual)]),
                 d |-> ProdSeq([i \in 1..Len(gi) |-> SizeOf(x.ix[gi[i]], ss[i])])]
      sorted == SortedSubSectors(x, groups, g)
      ext == BuildExt([k \in 1..Len(sorted) |-> [ss |-> sorted[k], c |-> cd(sorted[k]).c, d |-> cd(sorted[k]).d]], <<>>)
      cmset == {[c |-> ext[i].c, d |-> SumSeqInt([k \in 1..Len(ext[i].subs) |-> ext[i].subs[k].d])] : i \in 1..Len(ext)}
  IN [dual |-> x.ix[gi[1]].dual,
      cm |-> SetToSortSeq(cmset, LAMBDA u, w : ChargeLT(u.c, w.c)),
      sub |-> <<[ixs |-> [i \in 1..Len(gi) |-> x.ix[gi[i]]], ext |-> ext]>>]
PlanIndices(x, groups) ==
  LET before == FuseBefore(x, groups)
      after == FuseAfter(x, groups)
  IN [i \in 1..Len(before) |-> x.ix[before[i]]]
     \o [g \in 1..Len(groups) |-> IF IsSinglet(groups, g) THEN x.ix[groups[g][1]] ELSE FusedIndex(x, groups, g)]
     \o [i \in 1..Len(after) |-> x.ix[after[i]]]

\* _fuse_blocks_via_insert (abelian_core.py:889-945); both strategies give the same arrays
RECURSIVE InsertBlocks(_, _, _, _, _)
InsertBlocks(x, groups, nix, todo, acc) ==
  IF todo = <<>> THEN acc
  ELSE LET b == Head(todo)
           nb == Len(FuseBefore(x, groups))
           perm == FusePerm(x, groups)
           ns == PlanSector(x, groups, b.s)
           nshape == PlanShape(x, groups, b.s)
           data == TransposeData(b.shape, b.data, perm)
           fshape == [j \in 1..Len(nix) |-> SizeOf(nix[j], ns[j])]
           offs == [j \in 1..Len(nix) |->
                      IF j > nb /\ j <= nb + Len(groups) /\ ~IsSinglet(groups, j - nb)
                      THEN LET subs == ExtOf(nix[j], ns[j])
                               a == CHOOSE k \in 1..Len(subs) : subs[k].ss = SubSector(groups, j - nb, b.s)
                           IN ExtStart(subs, a)
                      ELSE 0]
           hit == {i \in 1..Len(acc) : acc[i].s = ns}
       IN IF hit = {}
          THEN InsertBlocks(x, groups, nix, Tail(todo),
                 Append(acc, Blk(ns, fshape, InsertData(fshape, Zeros(fshape), nshape, data, offs), b)))
          ELSE LET i == CHOOSE j \in hit : TRUE IN
               InsertBlocks(x, groups, nix, Tail(todo),
                 [acc EXCEPT ![i].data = InsertData(fshape, acc[i].data, nshape, data, offs)])
IFuseCore(x, groups) ==
  LET nix == PlanIndices(x, groups)
  IN [x EXCEPT !.ix = nix, !.blocks = InsertBlocks(x, groups, nix, x.blocks, <<>>)]

\* unfuse (abelian_core.py:1997-2057)
IUnfuse(x, ax) ==
  LET ix == x.ix[ax]
      sub == SubIxs(ix)
      pieces(b) ==
        LET subs == ExtOf(ix, b.s[ax]) IN
        [k \in 1..Len(subs) |->
           LET sl == SliceData(b.shape, b.data, ax, ExtStart(subs, k), ExtStart(subs, k) + subs[k].d)
               subshape == [j \in 1..Len(sub) |-> SizeOf(sub[j], subs[k].ss[j])]
           IN [b EXCEPT !.s = SubSeq(b.s, 1, ax - 1) \o subs[k].ss \o SubSeq(b.s, ax + 1, Len(b.s)),
                        !.shape = SubSeq(b.shape, 1, ax - 1) \o subshape \o SubSeq(b.shape, ax + 1, Len(b.shape)),
                        !.data = sl.data]]
  IN [x EXCEPT !.ix = SubSeq(x.ix, 1, ax - 1) \o sub \o SubSeq(x.ix, ax + 1, Len(x.ix)),
               !.blocks = FlattenSeq([i \in 1..Len(x.blocks) |-> pieces(x.blocks[i])])]

\* _tensordot_via_fused (abelian_core.py:2525-2577, after the fix: only what was fused here is unfused)
ITensordotFused(a0, b0, axa, axb) ==
  LET al == IDropMisaligned(a0, b0, axa, axb)
      a == al[1]
      b == al[2]
      left == SelectSeq([i \in 1..Rank(a) |-> i], LAMBDA i : ~InSeq(axa, i))
      right == SelectSeq([i \in 1..Rank(b) |-> i], LAMBDA i : ~InSeq(axb, i))
  IN IF a.blocks = <<>> \/ b.blocks = <<>>
     THEN [a EXCEPT !.ix = Permuted(a.ix, left) \o Permuted(b.ix, right),
                    !.charge = Combine(a.sym, a.charge, b.charge), !.blocks = <<>>]
     ELSE LET ga == SelectSeq(<<left, axa>>, LAMBDA g : g # <<>>)
              gb == SelectSeq(<<axb, right>>, LAMBDA g : g # <<>>)
              af == IF ga = <<>> THEN a ELSE IFuseCore(a, ga)
              bf == IF gb = <<>> THEN b ELSE IFuseCore(b, gb)
              caxa == IF axa = <<>> THEN <<>> ELSE <<IF left = <<>> THEN 1 ELSE 2>>
              caxb == IF axb = <<>> THEN <<>> ELSE <<1>>
              cf == ITensordotBlockwise(af, bf, caxa, caxb)
              cr == IF Len(right) > 1 THEN IUnfuse(cf, Rank(cf)) ELSE cf
          IN IF Len(left) > 1 THEN IUnfuse(cr, 1) ELSE cr

---------------------------------------------------------------------------
\* building inputs exactly as harness/descriptors.py does (counting fill, real data)
RECURSIVE ProdSeqs(_)
ProdSeqs(lists) == IF lists = <<>> THEN <<<<>>>>
                   ELSE LET rest == ProdSeqs(Tail(lists))
                            h == Head(lists)
                        IN FlattenSeq([i \in 1..Len(h) |-> [j \in 1..Len(rest) |-> <<h[i]>> \o rest[j]]])
ValidSectorSeqS(sym, ixs, charge) ==
  SelectSeq(ProdSeqs([i \in 1..Len(ixs) |-> [k \in 1..Len(ixs[i].cm) |-> ixs[i].cm[k].c]]),
            LAMBDA s : SignedCombine(sym, s, [i \in 1..Len(ixs) |-> ixs[i].dual]) = charge)
FillVal(start, n) == LET v == start + n - 1 IN IF n % 3 = 0 THEN 0 - v ELSE v
\* desc = [ix : Seq([dual, cm]), charge, drop : set of 0-based sector positions, start, phases : set of 0-based stored positions, oddpos]
BuildArray(sym, kind, d) ==
  LET ixs == [i \in 1..Len(d.ix) |-> [dual |-> d.ix[i].dual, cm |-> d.ix[i].cm, sub |-> <<>>]]
      secs == ValidSectorSeqS(sym, ixs, d.charge)
      shape(s) == [i \in 1..Len(s) |-> SizeOf(ixs[i], s[i])]
      before(k) == SumSeqInt([j \in 1..(k - 1) |-> ProdSeq(shape(secs[j]))])
      keep == SelectSeq([k \in 1..Len(secs) |-> k], LAMBDA k : (k - 1) \notin d.drop)
      blocks == [j \in 1..Len(keep) |->
                   LET k == keep[j] IN
                   [s |-> secs[k], shape |-> shape(secs[k]),
                    data |-> [p \in 1..ProdSeq(shape(secs[k])) |-> <<FillVal(d.start, before(k) + p), 0>>],
                    dt |-> "float64", exact |-> TRUE]]
      odd == Parity(sym, d.charge) = 1
  IN [t |-> "array", kind |-> kind, cls |-> IF sym = "Z4" THEN "dynamic" ELSE "static", sym |-> sym, charge |-> d.charge,
      ix |-> ixs, blocks |-> blocks,
      phases |-> IF kind = "fermionic"
                 THEN [j \in 1..Cardinality({q \in d.phases : q < Len(keep)}) |->
                         [s |-> blocks[SetToSortSeq({q \in d.phases : q < Len(keep)}, <)[j] + 1].s, p |-> -1]]
                 ELSE <<>>,
      oddpos |-> IF kind = "fermionic" /\ odd THEN <<[label |-> d.oddpos, dual |-> FALSE]>> ELSE <<>>,
      ids |-> [blocks |-> 0, phases |-> 0]]

\* vd = [blocks : Seq([c, d]), start]
BuildVector(vd) ==
  LET before(k) == SumSeqInt([j \in 1..(k - 1) |-> vd.blocks[j].d])
  IN [t |-> "vector",
      blocks |-> [k \in 1..Len(vd.blocks) |->
                    [c |-> vd.blocks[k].c, s |-> <<>>, shape |-> <<vd.blocks[k].d>>,
                     data |-> [p \in 1..vd.blocks[k].d |-> <<FillVal(vd.start, before(k) + p), 0>>],
                     dt |-> "float64", exact |-> TRUE]],
      ids |-> [blocks |-> 0, phases |-> 0]]

---------------------------------------------------------------------------
\* arithmetic of BlockBase (block_core.py:115-281) - dict order as the code produces it
IMapBlocks(x, f(_)) == [x EXCEPT !.blocks = [i \in 1..Len(x.blocks) |-> [x.blocks[i] EXCEPT !.data = MapData(x.blocks[i].data, f)]]]
IScale(x, k) == IMapBlocks(x, LAMBDA v : VMul(v, k))
INeg(x) == IMapBlocks(x, VNeg)
\* _binary_blockwise_op: policy "strict" (None), "outer", "inner" (after the repair: left-only blocks are dropped)
IBinary(x, y, f(_, _), policy) ==
  LET left == [i \in 1..Len(x.blocks) |->
                 IF HasSector(y, x.blocks[i].s)
                 THEN [x.blocks[i] EXCEPT !.data = [p \in 1..Len(x.blocks[i].data) |-> f(x.blocks[i].data[p], BlockOf(y, x.blocks[i].s).data[p])]]
                 ELSE x.blocks[i]]
      rightonly == SelectSeq(y.blocks, LAMBDA b : ~HasSector(x, b.s))
  IN CASE policy = "outer" -> [x EXCEPT !.blocks = left \o rightonly]
       [] policy = "inner" -> [x EXCEPT !.blocks = SelectSeq(left, LAMBDA b : HasSector(y, b.s))]
       [] OTHER -> [x EXCEPT !.blocks = left]
\* multiply_diagonal (abelian_core.py:2199-2245): blocks whose charge the vector lacks are deleted
IMulDiag(x, v, ax) ==
  LET kept == SelectSeq(x.blocks, LAMBDA b : VecHas(v, b.s[ax]))
  IN [x EXCEPT !.blocks = [i \in 1..Len(kept) |->
        [kept[i] EXCEPT !.data = [p \in 1..Len(kept[i].data) |->
            VMul(kept[i].data[p], VecBlock(v, kept[i].s[ax]).data[Unravel(p - 1, kept[i].shape)[ax] + 1])]]]]
\* trace (abelian_core.py:2183-2197), sum, squared norm
ITrace(x) == SumSeqV([i \in 1..Len(x.blocks) |->
                IF x.blocks[i].s[1] = x.blocks[i].s[2]
                THEN SumSeqV([k \in 1..x.blocks[i].shape[1] |-> x.blocks[i].data[Ravel(<<k - 1, k - 1>>, x.blocks[i].shape) + 1]])
                ELSE VZero])
ISum(x) == SumSeqV([i \in 1..Len(x.blocks) |-> SumSeqV(x.blocks[i].data)])
INorm2(x) == SumSeqInt([i \in 1..Len(x.blocks) |-> SumSeqInt([p \in 1..Len(x.blocks[i].data) |-> VAbs2(x.blocks[i].data[p])])])
\* sync_charges / fill_missing_blocks (abelian_core.py:1190-1280)
ISyncCharges(x) == [x EXCEPT !.ix = SyncIndices(x.ix, Sectors(x))]
IFillMissing(x) ==
  LET like == x.blocks[1]
      secs == ValidSectorSeqS(x.sym, x.ix, x.charge)
      missing == SelectSeq(secs, LAMBDA s : ~HasSector(x, s))
  IN [x EXCEPT !.blocks = x.blocks \o [i \in 1..Len(missing) |->
        LET shape == [a \in 1..Rank(x) |-> SizeOf(x.ix[a], missing[i][a])] IN Blk(missing[i], shape, Zeros(shape), like)]]
\* to_dense (abelian_core.py:1662-1688): concatenation over the charges of every axis in sorted order
IToDense(x) ==
  LET shape == [a \in 1..Rank(x) |-> SizeTotal(x.ix[a])]
      loc(a, i) == LET k == CHOOSE j \in 1..Len(x.ix[a].cm) :
                              OffsetOf(x.ix[a], x.ix[a].cm[j].c) <= i /\ i < OffsetOf(x.ix[a], x.ix[a].cm[j].c) + x.ix[a].cm[j].d
                   IN <<x.ix[a].cm[k].c, i - OffsetOf(x.ix[a], x.ix[a].cm[k].c)>>
      val(idx) == LET l == [a \in 1..Rank(x) |-> loc(a, idx[a])]
                      s == [a \in 1..Rank(x) |-> l[a][1]]
                  IN IF HasSector(x, s) THEN BlockOf(x, s).data[Ravel([a \in 1..Rank(x) |-> l[a][2]], BlockOf(x, s).shape) + 1] ELSE VZero
  IN [shape |-> shape, data |-> [p \in 1..ProdSeq(shape) |-> val(Unravel(p - 1, shape))]]
\* single-array einsum (abelian_core.py:2262-2326): per diagonal block, results accumulated by new sector
RECURSIVE IEinsumAccum(_, _, _)
IEinsumAccum(items, acc, like) ==
  IF items = <<>> THEN acc
  ELSE LET it == Head(items)
           hit == {i \in 1..Len(acc) : acc[i].s = it.s}
       IN IF hit = {} THEN IEinsumAccum(Tail(items), Append(acc, Blk(it.s, it.shape, it.data, like)), like)
          ELSE LET i == CHOOSE j \in hit : TRUE IN IEinsumAccum(Tail(items), [acc EXCEPT ![i].data = AddData(acc[i].data, it.data)], like)
IEinsum(x, lhs, rhs) ==
  LET ps == SetToSortSeq({pq \in (1..Len(lhs)) \X (1..Len(lhs)) : pq[1] < pq[2] /\ lhs[pq[1]] = lhs[pq[2]]}, LAMBDA u, w : u[1] < w[1])
      kept == [i \in 1..Len(rhs) |-> CHOOSE p \in 1..Len(lhs) : lhs[p] = rhs[i] /\ \A q \in 1..(p - 1) : lhs[q] # rhs[i]]
      diag == SelectSeq(x.blocks, LAMBDA b : \A k \in 1..Len(ps) : b.s[ps[k][1]] = b.s[ps[k][2]])
      blockres(b) ==
        LET rshape == [i \in 1..Len(kept) |-> b.shape[kept[i]]]
            tshape == [k \in 1..Len(ps) |-> b.shape[ps[k][1]]]
        IN [s |-> [i \in 1..Len(kept) |-> b.s[kept[i]]], shape |-> rshape,
            data |-> [p \in 1..ProdSeq(rshape) |->
                        LET ridx == Unravel(p - 1, rshape) IN
                        SumSeqV([t \in 1..ProdSeq(tshape) |->
                           LET tidx == Unravel(t - 1, tshape)
                               full == [a \in 1..Len(lhs) |->
                                          IF \E i \in 1..Len(kept) : kept[i] = a THEN ridx[CHOOSE i \in 1..Len(kept) : kept[i] = a]
                                          ELSE tidx[CHOOSE k \in 1..Len(ps) : a \in {ps[k][1], ps[k][2]}]]
                           IN b.data[Ravel(full, b.shape) + 1]])]]
  IN [x EXCEPT !.ix = [i \in 1..Len(kept) |-> x.ix[kept[i]]],
               !.blocks = IEinsumAccum([i \in 1..Len(diag) |-> blockres(diag[i])], <<>>, IF x.blocks = <<>> THEN [dt |-> "float64"] ELSE x.blocks[1])]

=============================================================================
