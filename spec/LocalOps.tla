------------------------------ MODULE LocalOps ------------------------------
(***************************************************************************)
(* Second-quantised operators (C18) and edge Hamiltonians (C19).            *)
(*                                                                          *)
(* An operator is [m |-> mode (Int, the rank of its label), cr |-> BOOLEAN] *)
(* (cr = creation).  FockEval is the independent oracle: it applies the      *)
(* operators from right to left to occupation SETS with Jordan-Wigner        *)
(* counting and reads off the vacuum component.  BubbleEval is the           *)
(* library-shaped algorithm (phased bubble sort by label, then the           *)
(* "annihilate-create" pattern test per label).                              *)
(***************************************************************************)
EXTENDS LinalgAbs

\* ---- Fock space semantics ----
\* state = [sgn |-> -1 | 0 | 1, occ |-> set of modes]; |S> = prod_{k in S ascending} c+_k |0>
FockApply(st, op) ==
  IF st.sgn = 0 THEN st
  ELSE LET below == Cardinality({k \in st.occ : k < op.m})
           s == IF below % 2 = 0 THEN st.sgn ELSE 0 - st.sgn
       IN IF op.cr
          THEN (IF op.m \in st.occ THEN [sgn |-> 0, occ |-> {}] ELSE [sgn |-> s, occ |-> st.occ \cup {op.m}])
          ELSE (IF op.m \in st.occ THEN [sgn |-> s, occ |-> st.occ \ {op.m}] ELSE [sgn |-> 0, occ |-> {}])
RECURSIVE FockRun(_, _)
FockRun(ops, st) == IF ops = <<>> THEN st ELSE FockRun(Front(ops), FockApply(st, Last(ops)))
\* <0| ops[1] ops[2] ... ops[n] |0>
FockEval(ops) == LET st == FockRun(ops, [sgn |-> 1, occ |-> {}]) IN IF st.occ = {} THEN st.sgn ELSE 0

DagOps(ops) == [i \in 1..Len(ops) |-> [m |-> ops[Len(ops) + 1 - i].m, cr |-> ~ops[Len(ops) + 1 - i].cr]]

\* ---- the library-shaped evaluation (fermionic_local_operators.py:161-199) ----
\* one left-to-right pass of adjacent swaps; returns [ops, sgn, moved]
RECURSIVE BubblePass(_, _, _, _)
BubblePass(ops, k, sgn, moved) ==
  IF k >= Len(ops) THEN [ops |-> ops, sgn |-> sgn, moved |-> moved]
  ELSE IF ops[k].m > ops[k + 1].m
       THEN BubblePass([ops EXCEPT ![k] = ops[k + 1], ![k + 1] = ops[k]], k + 1, 0 - sgn, TRUE)
       ELSE BubblePass(ops, k + 1, sgn, moved)
RECURSIVE BubbleSort(_, _)
BubbleSort(ops, sgn) ==
  LET r == BubblePass(ops, 1, sgn, FALSE) IN IF r.moved THEN BubbleSort(r.ops, r.sgn) ELSE r
BubbleEval(ops) ==
  LET r == BubbleSort(ops, 1)
      groups == {r.ops[i].m : i \in 1..Len(r.ops)}
      grp(m) == SelectSeq(r.ops, LAMBDA o : o.m = m)
      ok(g) == /\ Len(g) % 2 = 0
               /\ \A i \in 1..Len(g) : (i % 2 = 1 => ~g[i].cr) /\ (i % 2 = 0 => g[i].cr)
  IN IF \A m \in groups : ok(grp(m)) THEN r.sgn ELSE 0

\* ---- local operator elements ----
\* terms : Seq([c |-> <<re, im>>, ops |-> Seq(op)]);  bases : Seq(basis), basis : Seq(state), state : Seq(op)
\* element at (l_1..l_n, r_1..r_n), 1-based state numbers, in the DOCUMENTED ordering:
\*    < l_1 | < l_2 | ... < l_n |  term  | r_1 > | r_2 > ... | r_n >      (bra sites NOT reversed)
LeftString(bases, ls) == FlattenSeq([s \in 1..Len(bases) |-> DagOps(bases[s][ls[s]])])
RightString(bases, rs) == FlattenSeq([s \in 1..Len(bases) |-> bases[s][rs[s]]])
RECURSIVE SumTerms(_, _, _, _)
SumTerms(terms, i, l, r) ==
  IF i > Len(terms) THEN VZero
  ELSE VAdd(VScale(terms[i].c, FockEval(l \o terms[i].ops \o r)), SumTerms(terms, i + 1, l, r))
Element(terms, bases, ls, rs) == SumTerms(terms, 1, LeftString(bases, ls), RightString(bases, rs))
RECURSIVE IdxTuples(_)
IdxTuples(bases) == IF bases = <<>> THEN {<<>>}
                    ELSE {<<i>> \o rest : i \in 1..Len(Head(bases)), rest \in IdxTuples(Tail(bases))}
\* all non-zero elements as [idx |-> ls \o rs (0-based), v]
Elements(terms, bases) ==
  NZ({[k |-> [j \in 1..(2 * Len(bases)) |-> (IF j <= Len(bases) THEN lr[1][j] ELSE lr[2][j - Len(bases)]) - 1],
       v |-> Element(terms, bases, lr[1], lr[2])] : lr \in IdxTuples(bases) \X IdxTuples(bases)})

\* ---- the operator as a matrix on Fock space, basis |i>|j>.. = ops_i ops_j .. |0> ----
\* <out| Op |in> with the PROPER adjoint of the product state (sites reversed in the bra)
ProperBra(bases, ls) == DagOps(RightString(bases, ls))
OpElement(terms, bases, out, in) == SumTerms(terms, 1, ProperBra(bases, out), RightString(bases, in))
StateParities(bases, st) == [s \in 1..Len(bases) |-> Len(bases[s][st[s]]) % 2]
\* sign of reversing the order of the sites of a product state
RevSign(bases, st) == WordSign(StateParities(bases, st), Reversal(Len(bases)))
\* what contracting the operator array with the basis tensor |in> must give, as a map out -> value
MapColumn(terms, bases, in) ==
  NZ({[k |-> out, v |-> VScale(OpElement(terms, bases, out, in), RevSign(bases, out) * RevSign(bases, in))] :
        out \in IdxTuples(bases)})

\* labelled coordinate of basis state i (1-based) of one site, given the site's labels (charge per state)
StateCoord(labels, i) == <<labels[i], RankInLabel(labels, i)>>

=============================================================================
