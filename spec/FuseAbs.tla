------------------------------ MODULE FuseAbs ------------------------------
(***************************************************************************)
(* What fusing MEANS (C05/C06/C07): a relocation of elements that is        *)
(* described by the fused index's OWN sub-index table.  Decode reads only   *)
(* the result's table (cumulative sizes in table order, then row-major      *)
(* inside a sub-sector); nothing is taken from the plan that produced it.   *)
(***************************************************************************)
EXTENDS FermiAbs

\* cumulative start of entry a in a sub-sector list
ExtStart(subs, a) == SumSeqInt([i \in 1..(a - 1) |-> subs[i].d])
\* decode position o of charge c of a fused index: sequence of <<subcharge, suboffset>>
Decode(ix, c, o) ==
  LET subs == ExtOf(ix, c)
      a == CHOOSE i \in 1..Len(subs) : ExtStart(subs, i) <= o /\ o < ExtStart(subs, i) + subs[i].d
      ss == subs[a].ss
      shape == [j \in 1..Len(ss) |-> SizeOf(SubIxs(ix)[j], ss[j])]
      idx == Unravel(o - ExtStart(subs, a), shape)
  IN [j \in 1..Len(ss) |-> <<ss[j], idx[j]>>]
Decodable(ix, c, o) ==
  /\ IsFused(ix) /\ ExtHas(ix, c)
  /\ \E i \in 1..Len(ExtOf(ix, c)) : ExtStart(ExtOf(ix, c), i) <= o /\ o < ExtStart(ExtOf(ix, c), i) + ExtOf(ix, c)[i].d

\* expand the coordinates of the axes in `fused` (a set of 1-based positions of r)
DecodeKey(r, k, fused) ==
  FlattenSeq([j \in 1..Len(k) |-> IF j \in fused THEN Decode(r.ix[j], k[j][1], k[j][2]) ELSE <<k[j]>>])
DecodedElems(r, fused) == {[k |-> DecodeKey(r, e.k, fused), v |-> e.v] : e \in Elem(r)}
AllDecodable(r, fused) ==
  \A e \in Elem(r) : \A j \in fused : Decodable(r.ix[j], e.k[j][1], e.k[j][2])

---------------------------------------------------------------------------
\* layout of a fuse: groups are sequences of 1-based axes (non-empty, disjoint)
FuseEnabled(x, groups) ==
  /\ groups # <<>>
  /\ \A g \in 1..Len(groups) : groups[g] # <<>> /\ \A i \in 1..Len(groups[g]) : groups[g][i] \in 1..Rank(x)
  /\ LET flat == FlattenSeq(groups) IN \A i, j \in 1..Len(flat) : i # j => flat[i] # flat[j]
FusePosition(groups) == Min(SeqRange(FlattenSeq(groups)))
FuseBefore(x, groups) == SelectSeq([i \in 1..Rank(x) |-> i], LAMBDA i : i < FusePosition(groups) /\ i \notin SeqRange(FlattenSeq(groups)))
FuseAfter(x, groups) == SelectSeq([i \in 1..Rank(x) |-> i], LAMBDA i : i >= FusePosition(groups) /\ i \notin SeqRange(FlattenSeq(groups)))
FusePerm(x, groups) == FuseBefore(x, groups) \o FlattenSeq(groups) \o FuseAfter(x, groups)
\* result positions (1-based) of the groups that really fuse (more than one axis)
FusedAxes(x, groups) ==
  {Len(FuseBefore(x, groups)) + g : g \in {h \in 1..Len(groups) : Len(groups[h]) > 1}}
FuseRank(x, groups) == Len(FuseBefore(x, groups)) + Len(groups) + Len(FuseAfter(x, groups))

\* clauses of C05 for one fuse event; `signed` = compare magnitudes only (fermionic)
AbsElems(E) == {[k |-> e.k, v |-> VAbs2(e.v)] : e \in E}
FuseFails(x, groups, r, p) ==
  LET nb == Len(FuseBefore(x, groups))
      fused == FusedAxes(x, groups)
      perm == FusePerm(x, groups)
      want == {[k |-> Permuted(e.k, perm), v |-> e.v] : e \in Elem(x)}
  IN F(Rank(r) = FuseRank(x, groups), p \o ".rank")
     \cup (IF Rank(r) # FuseRank(x, groups) THEN {}
           ELSE F(\A g \in 1..Len(groups) : r.ix[nb + g].dual = x.ix[groups[g][1]].dual, p \o ".dual")
             \cup F(\A g \in 1..Len(groups) : Len(groups[g]) > 1 =>
                      /\ IsFused(r.ix[nb + g])
                      /\ Len(SubIxs(r.ix[nb + g])) = Len(groups[g])
                      /\ \A j \in 1..Len(groups[g]) : PlainIndex(SubIxs(r.ix[nb + g])[j]) = PlainIndex(x.ix[groups[g][j]]),
                    p \o ".subindices")
             \cup F(\A j \in 1..Rank(r) : j \notin fused =>
                      PlainIndex(r.ix[j]) = PlainIndex(x.ix[
                        IF j <= nb THEN FuseBefore(x, groups)[j]
                        ELSE IF j <= nb + Len(groups) THEN groups[j - nb][1]
                        ELSE FuseAfter(x, groups)[j - nb - Len(groups)]]), p \o ".free_index")
             \cup F(r.charge = x.charge, p \o ".charge")
             \cup (IF AllDecodable(r, fused)
                   THEN (IF IsFermi(x)
                         THEN F(AbsElems(DecodedElems(r, fused)) = AbsElems(want), p \o ".relocation")
                         ELSE F(DecodedElems(r, fused) = want, p \o ".relocation"))
                        \cup F(Cardinality(Elem(r)) = Cardinality(Elem(x)), p \o ".exactly_once")
                   ELSE {p \o ".decodable"}))

\* unfuse of (1-based) axis ax
UnfuseFails(x, ax, r, p) ==
  LET ix == x.ix[ax]
      n == Len(SubIxs(ix))
  IN F(Rank(r) = Rank(x) + n - 1, p \o ".rank")
     \cup (IF Rank(r) # Rank(x) + n - 1 THEN {}
           ELSE F(\A j \in 1..Rank(r) :
                     PlainIndex(r.ix[j]) = IF j < ax THEN PlainIndex(x.ix[j])
                                           ELSE IF j >= ax + n THEN PlainIndex(x.ix[j - n + 1])
                                           ELSE PlainIndex(SubIxs(ix)[j - ax + 1]), p \o ".index")
             \cup F(r.charge = x.charge, p \o ".charge")
             \cup (IF AllDecodable(x, {ax})
                   THEN (IF IsFermi(x)
                         THEN F(AbsElems(Elem(r)) = AbsElems(DecodedElems(x, {ax})), p \o ".relocation")
                         ELSE F(Elem(r) = DecodedElems(x, {ax}), p \o ".relocation"))
                   ELSE {}))

---------------------------------------------------------------------------
\* C07 reshape
\* target obtainable from shape by merging adjacent axes and/or dropping unit axes
RECURSIVE IsMergeDrop(_, _)
IsMergeDrop(s, t) ==
  IF s = <<>> THEN t = <<>>
  ELSE \/ (Head(s) = 1 /\ IsMergeDrop(Tail(s), t))
       \/ (t # <<>> /\ \E k \in 1..Len(s) :
              ProdSeq(SubSeq(s, 1, k)) = Head(t) /\ IsMergeDrop(SubSeq(s, k + 1, Len(s)), Tail(t)))
ShapeOf(x) == [i \in 1..Rank(x) |-> SizeTotal(x.ix[i])]
\* bag of stored magnitudes as a set of <<|v|^2, multiplicity>>
MagBag(E) == {<<m, Cardinality({e \in E : VAbs2(e.v) = m})>> : m \in {VAbs2(e.v) : e \in E}}
ReshapeFails0(x, newshape, r, p) ==
  F(Rank(r) = Len(newshape), p \o ".rank")
  \cup (IF Rank(r) # Len(newshape) THEN {}
        ELSE F(\A i \in 1..Rank(r) : SizeTotal(r.ix[i]) <= newshape[i], p \o ".axis_size"))
  \cup F(Norm2(Elem(r)) = Norm2(Elem(x)), p \o ".norm")
  \cup F(MagBag(Elem(r)) = MagBag(Elem(x)), p \o ".magnitudes")
  \cup F(r.charge = x.charge, p \o ".charge")
\* when the target only inserts unit axes into a shape without unit axes, the content is literally unchanged
NoOnes(seq) == SelectSeq(seq, LAMBDA d : d # 1)
ExpandOnly(x, newshape) == NoOnes(newshape) = ShapeOf(x) /\ \A i \in 1..Rank(x) : SizeTotal(x.ix[i]) # 1 /\ ~IsFused(x.ix[i])
DropUnitCoords(r, k) == LET keep == SelectSeq([i \in 1..Len(k) |-> i], LAMBDA i : SizeTotal(r.ix[i]) # 1) IN [j \in 1..Len(keep) |-> k[keep[j]]]
ReshapeFails(x, newshape, r, p) ==
  (IF ExpandOnly(x, newshape) /\ Rank(r) = Len(newshape)
   THEN F({[k |-> DropUnitCoords(r, e.k), v |-> e.v] : e \in Elem(r)} = Elem(x), p \o ".content")
   ELSE {}) \cup ReshapeFails0(x, newshape, r, p)

---------------------------------------------------------------------------
\* C07, routine level: what executing the plan returned by the axis-matching routine does to a SHAPE.
\* An axis is [d |-> size, sub |-> <<>> or the sizes it was fused from].  The plan is applied exactly as
\* AbelianArray.reshape does: unfuse (one by one), fuse (grouping by grouping), expand (one by one).
Ax(d) == [d |-> d, sub |-> <<>>]
PUnfuse(axes, k) == SubSeq(axes, 1, k - 1) \o [i \in 1..Len(axes[k].sub) |-> Ax(axes[k].sub[i])] \o SubSeq(axes, k + 1, Len(axes))
RECURSIVE PUnfuseAll(_, _)
PUnfuseAll(axes, ks) == IF ks = <<>> THEN axes ELSE PUnfuseAll(PUnfuse(axes, Head(ks) + 1), Tail(ks))
\* one fuse call with several groups (0-based axes): groups go to the position of the smallest grouped axis
PFuse(axes, groups0) ==
  LET groups == [g \in 1..Len(groups0) |-> [i \in 1..Len(groups0[g]) |-> groups0[g][i] + 1]]
      flat == FlattenSeq(groups)
      pos == Min(SeqRange(flat))
      before == SelectSeq([i \in 1..Len(axes) |-> i], LAMBDA i : i < pos /\ i \notin SeqRange(flat))
      after == SelectSeq([i \in 1..Len(axes) |-> i], LAMBDA i : i >= pos /\ i \notin SeqRange(flat))
      fusedax(g) == IF Len(groups[g]) = 1 THEN axes[groups[g][1]]
                    ELSE [d |-> ProdSeq([i \in 1..Len(groups[g]) |-> axes[groups[g][i]].d]),
                          sub |-> [i \in 1..Len(groups[g]) |-> axes[groups[g][i]].d]]
  IN [i \in 1..Len(before) |-> axes[before[i]]] \o [g \in 1..Len(groups) |-> fusedax(g)] \o [i \in 1..Len(after) |-> axes[after[i]]]
RECURSIVE PFuseAll(_, _)
PFuseAll(axes, gs) == IF gs = <<>> THEN axes ELSE PFuseAll(PFuse(axes, Head(gs)), Tail(gs))
RECURSIVE PExpandAll(_, _)
PExpandAll(axes, ks) ==
  IF ks = <<>> THEN axes
  ELSE PExpandAll(SubSeq(axes, 1, Head(ks)) \o <<Ax(1)>> \o SubSeq(axes, Head(ks) + 1, Len(axes)), Tail(ks))
ApplyPlan(shape, subsizes, plan) ==
  LET axes0 == [i \in 1..Len(shape) |-> [d |-> shape[i], sub |-> subsizes[i]]]
  IN PExpandAll(PFuseAll(PUnfuseAll(axes0, plan.unfuse), plan.fuse), plan.expand)
PlanWellFormed(shape, subsizes, plan) ==
  \* every step refers to existing axes, unfuses only fused axes, groups are disjoint
  /\ \A i \in 1..Len(plan.unfuse) : LET a == PUnfuseAll([j \in 1..Len(shape) |-> [d |-> shape[j], sub |-> subsizes[j]]], SubSeq(plan.unfuse, 1, i - 1))
                                      IN plan.unfuse[i] + 1 \in 1..Len(a) /\ a[plan.unfuse[i] + 1].sub # <<>>
ShapeOfAxes(axes) == [i \in 1..Len(axes) |-> axes[i].d]

=============================================================================
