----------------------------- MODULE MC_Charges -----------------------------
(***************************************************************************)
(* C17 on the model: (a) the group laws of Charges.tla by enumeration      *)
(* (finite groups completely, U1-type groups on a box), checked by TLC as   *)
(* ASSUMEs; (b) the library's way of enumerating sectors                    *)
(* (gen_valid_sectors: product of the first n-1 tables, last charge SOLVED  *)
(* from the total charge and signed by the last direction) against the      *)
(* defining set, for every small index structure - one TLC state per case.  *)
(***************************************************************************)
EXTENDS Tensors

CONSTANTS Sym, BoxK, MaxRank

Box == CASE Sym = "Z2" -> {<<0, 0>>, <<1, 0>>}
         [] Sym = "Z4" -> {<<a, 0>> : a \in 0..3}
         [] Sym = "U1" -> {<<a, 0>> : a \in (0 - BoxK)..BoxK}
         [] Sym = "Z2Z2" -> {<<a, b>> : a \in 0..1, b \in 0..1}
         [] Sym = "U1U1" -> {<<a, b>> : a \in (0 - BoxK)..BoxK, b \in (0 - BoxK)..BoxK}

ASSUME Associative == \A a, b, c \in Box : Combine(Sym, Combine(Sym, a, b), c) = Combine(Sym, a, Combine(Sym, b, c))
ASSUME Commutative == \A a, b \in Box : Combine(Sym, a, b) = Combine(Sym, b, a)
ASSUME IdentityLaw == \A a \in Box : Combine(Sym, Zero, a) = a /\ CombineSeq(Sym, <<>>) = Zero
ASSUME InverseLaw == \A a \in Box : ValidCharge(Sym, Neg(Sym, a)) /\ Combine(Sym, a, Neg(Sym, a)) = Zero
ASSUME ParityHom == \A a, b \in Box : Parity(Sym, Combine(Sym, a, b)) = (Parity(Sym, a) + Parity(Sym, b)) % 2
ASSUME Closed == \A a \in Box : ValidCharge(Sym, a)

\* small charge pool for index tables
Pool == CASE Sym = "U1" -> {<<-1, 0>>, <<0, 0>>, <<1, 0>>}
          [] Sym = "U1U1" -> {<<0, 0>>, <<0, 1>>, <<1, 0>>, <<-1, 1>>}
          [] OTHER -> Box
Tables == (SUBSET Pool) \ {{}}
Totals == CASE Sym = "U1" -> {<<a, 0>> : a \in -2..2}
            [] Sym = "U1U1" -> {<<a, b>> : a \in -1..1, b \in -1..1}
            [] OTHER -> Box

VARIABLES ixs, charge
vars == <<ixs, charge>>

\* an index here: [dual, charges : set]
Init == /\ \E n \in 0..MaxRank : ixs \in [1..n -> [dual : BOOLEAN, charges : Tables]]
        /\ charge \in Totals
Next == UNCHANGED vars
Spec == Init /\ [][Next]_vars

\* sorted sequence of a set of charges
SortedSeq(S) == SetToSortSeq(S, ChargeLT)
RECURSIVE Prods(_)
Prods(lists) == IF lists = <<>> THEN <<<<>>>>
                ELSE LET rest == Prods(Tail(lists))
                         h == Head(lists)
                     IN FlattenSeq([i \in 1..Len(h) |-> [j \in 1..Len(rest) |-> <<h[i]>> \o rest[j]]])

\* the library's generator, as a sequence (abelian_core.py gen_valid_sectors)
GenValidSectors ==
  LET n == Len(ixs) IN
  IF n = 0 THEN (IF charge = Zero THEN <<<<>>>> ELSE <<>>)
  ELSE LET firsts == Prods([i \in 1..(n - 1) |-> SortedSeq(ixs[i].charges)])
           req(ps) == Sign(Sym, Combine(Sym, charge,
                          CombineSeq(Sym, [i \in 1..(n - 1) |-> Sign(Sym, ps[i], ~ixs[i].dual)])), ixs[n].dual)
           keep == SelectSeq(firsts, LAMBDA ps : req(ps) \in ixs[n].charges)
       IN [k \in 1..Len(keep) |-> keep[k] \o <<req(keep[k])>>]

RECURSIVE TupleSet(_)
TupleSet(sets) == IF sets = <<>> THEN {<<>>}
                  ELSE {<<c>> \o r : c \in Head(sets), r \in TupleSet(Tail(sets))}
Defining == {s \in TupleSet([i \in 1..Len(ixs) |-> ixs[i].charges]) :
               SignedCombine(Sym, s, [i \in 1..Len(ixs) |-> ixs[i].dual]) = charge}

SectorsExact ==
  LET g == GenValidSectors IN
  /\ \A i, j \in 1..Len(g) : i # j => g[i] # g[j]
  /\ SeqRange(g) = Defining
\* spec -> code: every explored case is printed and replayed into the real generator
ExportCase == PrintT(<<"CASE", ixs, charge>>)
=============================================================================
