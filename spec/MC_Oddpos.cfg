SPECIFICATION Spec
CONSTANTS
  Labels = {1, 2, 3, 4}
  MaxLen = 4
INVARIANT ResultIsSorted
INVARIANT SameDenotation
INVARIANT DistinctLabelsSorted
CHECK_DEADLOCK FALSE
