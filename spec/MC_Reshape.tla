----------------------------- MODULE MC_Reshape -----------------------------
(***************************************************************************)
(* C07 on the routine level, without Python: for EVERY shape with at most  *)
(* MaxAxes axes over Sizes and EVERY target obtained by merging adjacent   *)
(* axes and / or dropping unit axes, the plan computed by the transcribed  *)
(* routine (ReshapeImpl) is well formed and executing it (FuseAbs!ApplyPlan*)
(* - the semantics of unfuse / fuse / expand on shapes) yields the target; *)
(* the way back, with the sub-sizes the forward trip leaves behind, yields *)
(* the original shape.  One state per (shape, target).                     *)
(***************************************************************************)
EXTENDS FuseAbs, ReshapeImpl, TLC

CONSTANTS MaxAxes, Sizes
VARIABLES shape, target
vars == <<shape, target>>

Shapes == UNION {[1..n -> Sizes] : n \in 1..MaxAxes}
\* a target: cut the axes into consecutive segments (cuts = set of positions after which a segment ends),
\* multiply each segment, and drop any subset of the segments that consist of a single unit axis
Segments(n, cuts) ==
  LET ends == SetToSortSeq(cuts \cup {n}, <)
  IN [k \in 1..Len(ends) |-> <<(IF k = 1 THEN 1 ELSE ends[k - 1] + 1), ends[k]>>]
Targets(s) ==
  LET n == Len(s) IN
  UNION { LET segs == Segments(n, cuts)
              droppable == {k \in 1..Len(segs) : segs[k][1] = segs[k][2] /\ s[segs[k][1]] = 1}
          IN { LET keep == SelectSeq([k \in 1..Len(segs) |-> k], LAMBDA k : k \notin D)
               IN [q \in 1..Len(keep) |-> ProdSeq(SubSeq(s, segs[keep[q]][1], segs[keep[q]][2]))] : D \in SUBSET droppable }
        : cuts \in SUBSET (1..(n - 1)) }

None(s) == [i \in 1..Len(s) |-> <<>>]
Plan(r) == [unfuse |-> r.unfuse, fuse |-> r.fuse, expand |-> r.expand]

\* one or two unit axes inserted anywhere (content literally unchanged), and the identity
Ins1(s, p) == SubSeq(s, 1, p) \o <<1>> \o SubSeq(s, p + 1, Len(s))
InsertTargets(s) == {Ins1(s, p) : p \in 0..Len(s)} \cup {Ins1(Ins1(s, p), q) : p \in 0..Len(s), q \in 0..(Len(s) + 1)}
Init == shape \in Shapes /\ target \in (Targets(shape) \cup InsertTargets(shape))
Next == UNCHANGED vars
Spec == Init /\ [][Next]_vars

Forward == CalcReshapeArgs(shape, target, None(shape))
\* F09 (known finding): a shape of unit axes only cannot be reshaped to () - the routine raises IndexError
AllUnitsToScalar == target = <<>>
ForwardOK == ~AllUnitsToScalar => Forward.ok
ForwardWellFormed == Forward.ok => PlanWellFormed(shape, None(shape), Plan(Forward))
ForwardGivesTarget ==
  (Forward.ok /\ PlanWellFormed(shape, None(shape), Plan(Forward)))
     => ShapeOfAxes(ApplyPlan(shape, None(shape), Plan(Forward))) = target
\* the way back: the axes after the forward trip carry the sub-sizes of what was fused
BackwardGivesShape ==
  (Forward.ok /\ PlanWellFormed(shape, None(shape), Plan(Forward)))
     => LET ax == ApplyPlan(shape, None(shape), Plan(Forward))
            subs == [i \in 1..Len(ax) |-> ax[i].sub]
            back == CalcReshapeArgs(target, shape, subs)
        IN (target # <<>> \/ shape = <<>>) =>
           /\ back.ok
           /\ PlanWellFormed(target, subs, Plan(back))
           /\ ShapeOfAxes(ApplyPlan(target, subs, Plan(back))) = shape
\* SPARSE fused axes: after the forward trip a fused axis of a sparse array can be SMALLER than the product of its
\* pieces.  For every way of shrinking the fused axes (by 1, or to the size of their first piece) the way back, the
\* identity and the insertion of a unit axis must still be planned correctly.
Shrunk(ax, how) ==
  [i \in 1..Len(ax) |->
     IF ax[i].sub = <<>> THEN ax[i]
     ELSE [ax[i] EXCEPT !.d = IF how = 1 THEN (IF @ > 1 THEN @ - 1 ELSE @) ELSE ax[i].sub[1]]]
PlanGives(sh, subs, tgt) ==
  LET r == CalcReshapeArgs(sh, tgt, subs) IN
  r.ok /\ PlanWellFormed(sh, subs, Plan(r)) /\ ShapeOfAxes(ApplyPlan(sh, subs, Plan(r))) = tgt
SparseFusedAxes ==
  (Forward.ok /\ PlanWellFormed(shape, None(shape), Plan(Forward)) /\ target # <<>>)
     => \A how \in {1, 2} :
          LET ax == Shrunk(ApplyPlan(shape, None(shape), Plan(Forward)), how)
              sh == ShapeOfAxes(ax)
              subs == [i \in 1..Len(ax) |-> ax[i].sub]
          IN /\ PlanGives(sh, subs, shape)                                    \* the way back (unfuse)
             /\ PlanGives(sh, subs, sh)                                       \* the identity
             /\ \A p \in 0..Len(sh) : PlanGives(sh, subs, Ins1(sh, p))        \* one unit axis inserted
\* un-merging and inserting a new unit axis (anywhere) in one request
BackwardWithInsert ==
  (Forward.ok /\ PlanWellFormed(shape, None(shape), Plan(Forward)) /\ target # <<>>)
     => LET ax == ApplyPlan(shape, None(shape), Plan(Forward))
            subs == [i \in 1..Len(ax) |-> ax[i].sub]
        IN \* (such a request may be refused - e.g. a unit axis in the middle of the pieces - but a returned plan must be right)
           \A p \in 0..Len(shape) :
              LET r == CalcReshapeArgs(target, Ins1(shape, p), subs) IN
              r.ok => /\ PlanWellFormed(target, subs, Plan(r))
                      /\ ShapeOfAxes(ApplyPlan(target, subs, Plan(r))) = Ins1(shape, p)
\* NEGATIVE CONTROL: the routine as it was before the repair of F17 (CalcOriginal) must FAIL the sparse identity / unit
\* insertion requests - checks/c07.py expects TLC to report this invariant
PlanGivesOrig(sh, subs, tgt) ==
  LET r == CalcOriginal(sh, tgt, subs) IN
  r.ok /\ PlanWellFormed(sh, subs, Plan(r)) /\ ShapeOfAxes(ApplyPlan(sh, subs, Plan(r))) = tgt
ControlOriginalSparse ==
  (Forward.ok /\ PlanWellFormed(shape, None(shape), Plan(Forward)) /\ target # <<>>)
     => \A how \in {1, 2} :
          LET ax == Shrunk(ApplyPlan(shape, None(shape), Plan(Forward)), how)
              sh == ShapeOfAxes(ax)
              subs == [i \in 1..Len(ax) |-> ax[i].sub]
          IN /\ PlanGivesOrig(sh, subs, sh)
             /\ \A p \in 0..Len(sh) : PlanGivesOrig(sh, subs, Ins1(sh, p))
\* the documented known finding is still there (if this fails the routine was repaired: update the findings)
KnownF09 == AllUnitsToScalar => ~Forward.ok
=============================================================================
