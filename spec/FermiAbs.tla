------------------------------ MODULE FermiAbs ------------------------------
(***************************************************************************)
(* Graded (Z2 / Grassmann) tensor semantics BY WORDS, the independent       *)
(* oracle for the fermionic properties C03, C04, C09, C10.                  *)
(*                                                                          *)
(* A fermionic array denotes   SUM_k  v[k] * D * e(k1) e(k2) ... e(kn)      *)
(* where D is the ordered word of its odd-position labels (each an odd      *)
(* generator, to the LEFT of the legs) and e(ki) is a generator that is odd *)
(* iff the charge ki has odd parity, a ket if the index is not dual and a   *)
(* bra if it is.  Rearranging a word costs one -1 per odd-odd inversion     *)
(* (WordSign counts inversions; it does not simulate the library's          *)
(* move-to-front loop).  A bra-ket pair that meets as <x|x> evaluates to 1, *)
(* as |x><x| to (-1)^parity(x).                                             *)
(***************************************************************************)
EXTENDS Props

\* order[i] = old position that is placed i-th; par[p] = parity of old position p
WordSign(par, order) ==
  LET n == Len(order)
      inv == {ij \in (1..n) \X (1..n) : /\ ij[1] < ij[2] /\ order[ij[1]] > order[ij[2]]
                                        /\ par[order[ij[1]]] = 1 /\ par[order[ij[2]]] = 1}
  IN IF Cardinality(inv) % 2 = 0 THEN 1 ELSE -1

KeyPar(sym, k) == [i \in 1..Len(k) |-> Parity(sym, k[i][1])]
KeyParity(sym, k) == SumSeqInt(KeyPar(sym, k)) % 2

\* fermionic transpose: sign of the permutation restricted to odd legs
GTransposeD(sym, d, perm) ==
  [E |-> {[k |-> Permuted(e.k, perm), v |-> VSgn(e.v, WordSign(KeyPar(sym, e.k), perm))] : e \in d.E},
   ix |-> Permuted(d.ix, perm), charge |-> d.charge]
GTransposeDen(x, perm) == GTransposeD(x.sym, Den(x), perm)

\* sign-only variants used by the phase_* operations (no data movement)
GPhaseTransposeDen(x, perm) ==
  [E |-> {[k |-> e.k, v |-> VSgn(e.v, WordSign(KeyPar(x.sym, e.k), perm))] : e \in Elem(x)},
   ix |-> Den(x).ix, charge |-> x.charge]
GPhaseFlipDen(x, axs) ==
  [E |-> {[k |-> e.k, v |-> VSgn(e.v, IF SumSeqInt([i \in 1..Len(axs) |-> Parity(x.sym, e.k[axs[i]][1])]) % 2 = 1 THEN -1 ELSE 1)] : e \in Elem(x)},
   ix |-> Den(x).ix, charge |-> x.charge]
GPhaseGlobalDen(x) == [E |-> {[k |-> e.k, v |-> VNeg(e.v)] : e \in Elem(x)}, ix |-> Den(x).ix, charge |-> x.charge]
GPhaseSectorDen(x, s) ==
  [E |-> {[k |-> e.k, v |-> IF KeySector(e.k) = s THEN VNeg(e.v) ELSE e.v] : e \in Elem(x)},
   ix |-> Den(x).ix, charge |-> x.charge]

---------------------------------------------------------------------------
\* labels (odd-position dummies): [label |-> Int, dual |-> BOOLEAN]
LabelConj(L) == [i \in 1..Len(L) |-> [label |-> L[Len(L) + 1 - i].label, dual |-> ~L[Len(L) + 1 - i].dual]]

\* well-formed combined word: every label at most twice, and then as a conjugate pair
LabelsOK(L) ==
  \A i, j \in 1..Len(L) : (i < j /\ L[i].label = L[j].label) =>
      /\ L[i].dual # L[j].dual
      /\ \A m \in 1..Len(L) : L[m].label = L[i].label => m \in {i, j}

\* positions that have a conjugate partner, as pairs <<i, j>> with i < j
LabelPairs(L) == {ij \in (1..Len(L)) \X (1..Len(L)) : ij[1] < ij[2] /\ L[ij[1]].label = L[ij[2]].label}
Paired(L) == UNION {{ij[1], ij[2]} : ij \in LabelPairs(L)}
\* remaining labels in their original relative order
RemainingPos(L) == SelectSeq([i \in 1..Len(L) |-> i], LAMBDA i : i \notin Paired(L))
Remaining(L) == [i \in 1..Len(RemainingPos(L)) |-> L[RemainingPos(L)[i]]]

\* sign of bringing the word to  [pairs ...][remaining in original order]  and
\* evaluating every pair; pairs are listed in increasing order of their first
\* member (pairs are even, their mutual order is irrelevant)
PairSeq(L) ==
  LET firsts == SelectSeq([i \in 1..Len(L) |-> i], LAMBDA i : \E ij \in LabelPairs(L) : ij[1] = i)
  IN [m \in 1..Len(firsts) |-> CHOOSE ij \in LabelPairs(L) : ij[1] = firsts[m]]
ResolveSign(L) ==
  LET ps == PairSeq(L)
      order == FlattenSeq([m \in 1..Len(ps) |-> <<ps[m][1], ps[m][2]>>]) \o RemainingPos(L)
      allodd == [i \in 1..Len(L) |-> 1]
      ketbra == Cardinality({m \in 1..Len(ps) : ~L[ps[m][1]].dual /\ L[ps[m][2]].dual})
  IN WordSign(allodd, order) * (IF ketbra % 2 = 0 THEN 1 ELSE -1)

\* sign relating two orderings of the same set of distinct labels
ReorderSign(from, to) ==
  LET order == [i \in 1..Len(to) |-> CHOOSE j \in 1..Len(from) : from[j] = to[i]]
  IN WordSign([i \in 1..Len(from) |-> 1], order)
SameLabelSet(A, B) == Len(A) = Len(B) /\ SeqRange(A) = SeqRange(B) /\ Cardinality(SeqRange(A)) = Len(A)

---------------------------------------------------------------------------
\* contraction of a with b over (axa[i], axb[i]); result legs = [left a][right b],
\* result labels = Remaining(labels a \o labels b) (in that reference order)
GContractElems(a, b, axa, axb) ==
  LET Ea == Elem(a)
      Eb == Elem(b)
      sa == SeqRange(axa)
      sb == SeqRange(axb)
      lefta == SelectSeq([i \in 1..Rank(a) |-> i], LAMBDA i : i \notin sa)
      rightb == SelectSeq([i \in 1..Rank(b) |-> i], LAMBDA i : i \notin sb)
      ordA == lefta \o axa
      ordB == Reverse(axb) \o rightb
      nDb == Len(b.oddpos)
      L == a.oddpos \o b.oddpos
      sL == ResolveSign(L)
      pairs == {p \in Ea \X Eb : Permuted(p[1].k, axa) = Permuted(p[2].k, axb)}
      sgn(ea, eb) ==
        WordSign(KeyPar(a.sym, ea.k), ordA) * WordSign(KeyPar(b.sym, eb.k), ordB)
        * (IF Cardinality({i \in 1..Len(axa) : Parity(a.sym, ea.k[axa[i]][1]) = 1 /\ ~a.ix[axa[i]].dual}) % 2 = 0 THEN 1 ELSE -1)
        * (IF KeyParity(a.sym, ea.k) = 1 /\ nDb % 2 = 1 THEN -1 ELSE 1)
        * sL
  IN SumByKey({ [k |-> Without(p[1].k, sa) \o Without(p[2].k, sb),
                 m |-> <<p[1].k, p[2].k>>,
                 v |-> VSgn(VMul(p[1].v, p[2].v), sgn(p[1], p[2]))] : p \in pairs })

GContractDen(a, b, axa, axb) ==
  [E |-> GContractElems(a, b, axa, axb),
   ix |-> ContractDen(a, b, axa, axb).ix,
   charge |-> Combine(a.sym, a.charge, b.charge)]
GContractLabels(a, b) == Remaining(a.oddpos \o b.oddpos)

\* compare a fermionic result with an expected denotation whose labels are in
\* reference order `lab`: the result may order its labels differently, which
\* changes every element by the sign of that reordering
FlipDen(d, s) == [E |-> {[k |-> e.k, v |-> VSgn(e.v, s)] : e \in d.E}, ix |-> d.ix, charge |-> d.charge]
\* The result's own label word need not be fully reduced (the library annihilates conjugate labels only
\* when they become neighbours while sorting): it denotes the same tensor as its reduction - remaining
\* labels in their relative order, coefficient times the sign of that reduction.
WhyGraded(res, exp, lab, p) ==
  IF ~LabelsOK(res.oddpos) \/ ~LabelsOK(lab) \/ ~SameLabelSet(Remaining(res.oddpos), Remaining(lab)) THEN {p \o ".labels"}
  ELSE WhySubDen(FlipDen(Den(res), ResolveSign(res.oddpos)),
                 FlipDen(exp, ResolveSign(lab) * ReorderSign(Remaining(lab), Remaining(res.oddpos))), p)

---------------------------------------------------------------------------
\* single-array einsum: traced pairs <<p, q>> (1-based positions), kept = output order
\* bring to [bra ket][bra ket]...[kept]; each pair then evaluates to +1
GEinsumElems(x, pairs, kept) ==
  LET ps == SetToSortSeq(pairs, LAMBDA u, w : u[1] < w[1])
      braket(pq) == IF x.ix[pq[1]].dual THEN <<pq[1], pq[2]>> ELSE <<pq[2], pq[1]>>
      order == FlattenSeq([m \in 1..Len(ps) |-> braket(ps[m])]) \o kept
      diag == {e \in Elem(x) : \A pq \in pairs : e.k[pq[1]] = e.k[pq[2]]}
  IN SumByKey({ [k |-> Permuted(e.k, kept), m |-> e.k,
                 v |-> VSgn(e.v, WordSign(KeyPar(x.sym, e.k), order))] : e \in diag })

\* abelian (ungraded) version of the same
EinsumElems(x, pairs, kept) ==
  LET diag == {e \in Elem(x) : \A pq \in pairs : e.k[pq[1]] = e.k[pq[2]]}
  IN SumByKey({ [k |-> Permuted(e.k, kept), m |-> e.k, v |-> e.v] : e \in diag })

---------------------------------------------------------------------------
\* adjoint: reverse the word and conjugate everything; the label word D moves
\* from the right end back to the left, crossing legs of total parity P
GDaggerDen(x) ==
  LET n == Rank(x)
      s == IF ParityOfArray(x) = 1 /\ Len(x.oddpos) % 2 = 1 THEN -1 ELSE 1
  IN [E |-> {[k |-> Permuted(e.k, Reversal(n)), v |-> VSgn(VConj(e.v), s)] : e \in Elem(x)},
      ix |-> [i \in 1..n |-> [dual |-> ~x.ix[n + 1 - i].dual, cm |-> x.ix[n + 1 - i].cm]],
      charge |-> Neg(x.sym, x.charge)]
\* conjugate = adjoint followed by the graded reversal of the legs
GConjDen(x) ==
  LET d == GDaggerDen(x)
      n == Rank(x)
  IN [E |-> {[k |-> Permuted(e.k, Reversal(n)), v |-> VSgn(e.v, WordSign(KeyPar(x.sym, e.k), Reversal(n)))] : e \in d.E},
      ix |-> Permuted(d.ix, Reversal(n)), charge |-> d.charge]
\* the dual-leg option: an extra sign per odd leg that is a bra in the ORIGINAL
DualLegSign(x, k) ==
  IF Cardinality({i \in 1..Len(k) : x.ix[i].dual /\ Parity(x.sym, k[i][1]) = 1}) % 2 = 0 THEN 1 ELSE -1
GConjDenPD(x, pd) ==
  LET c == GConjDen(x) IN
  IF pd THEN [E |-> {[k |-> e.k, v |-> VSgn(e.v, DualLegSign(x, e.k))] : e \in c.E}, ix |-> c.ix, charge |-> c.charge]
  ELSE c
\* "the adjoint equals the conjugate followed by the fermionic reversal of axes"
GDaggerDenPD(x, pd) == GTransposeD(x.sym, GConjDenPD(x, pd), Reversal(Rank(x)))

=============================================================================
