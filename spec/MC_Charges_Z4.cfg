SPECIFICATION Spec
CONSTANTS
  Sym = "Z4"
  BoxK = 6
  MaxRank = 2
INVARIANT SectorsExact
CHECK_DEADLOCK FALSE
