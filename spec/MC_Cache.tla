------------------------------ MODULE MC_Cache ------------------------------
(***************************************************************************)
(* C15: the process-wide LRU cache of fuse plans (abelian_core.py:846-886)  *)
(* used concurrently.  One action per dict operation of                      *)
(* cached_fuse_block_info - each is atomic under the GIL, everything         *)
(* between them can interleave:                                              *)
(*                                                                           *)
(*   get       res = _fuseinfos[key]            (KeyError -> miss)           *)
(*   move      _fuseinfos.move_to_end(key)      (inside the same try)        *)
(*   set       res = _fuseinfos[key] = calc()   (existing key keeps its slot)*)
(*   len       len(_fuseinfos) > maxsize ?                                   *)
(*   pop       _fuseinfos.popitem(last=False)                                *)
(*                                                                           *)
(* A call is [key, plan]: `plan` is what calc_fuse_block_info returns for    *)
(* its arguments, `key` what the cache files it under.  Properties: no       *)
(* uncaught exception, every call returns the plan of ITS OWN arguments,     *)
(* the size bound holds again once everybody is done.                        *)
(***************************************************************************)
EXTENDS Integers, Sequences, FiniteSets, TLC

CONSTANTS Threads,      \* set of thread ids
          Prog,         \* Prog[t] : sequence of calls of thread t, a call is [key |-> k, plan |-> p]
          MaxSize,      \* cache size (0 = disabled)
          PopGuarded    \* TRUE: popitem on an empty cache is tolerated (the repaired code); FALSE: the original code

VARIABLES cache,        \* sequence of [key, plan], head = least recently used
          pc, ci, res,  \* per thread: control state, index of current call, plan in hand
          rets,         \* per thread: sequence of returned plans
          err,          \* an uncaught exception escaped
          sched         \* history: sequence of <<thread, action>>
vars == <<cache, pc, ci, res, rets, err, sched>>

Keys == {cache[i].key : i \in 1..Len(cache)}
Pos(k) == CHOOSE i \in 1..Len(cache) : cache[i].key = k
Call(t) == Prog[t][ci[t]]
RemoveAt(s, i) == SubSeq(s, 1, i - 1) \o SubSeq(s, i + 1, Len(s))

Init == /\ cache = <<>>
        /\ pc = [t \in Threads |-> IF Prog[t] = <<>> THEN "end" ELSE "start"]
        /\ ci = [t \in Threads |-> 1]
        /\ res = [t \in Threads |-> "none"]
        /\ rets = [t \in Threads |-> <<>>]
        /\ err = FALSE
        /\ sched = <<>>

Step(t, a) == sched' = Append(sched, <<t, a>>)

Start(t) == /\ pc[t] = "start"
            /\ IF MaxSize = 0
               THEN /\ res' = [res EXCEPT ![t] = Call(t).plan]     \* cache disabled: compute directly
                    /\ pc' = [pc EXCEPT ![t] = "ret"]
               ELSE /\ pc' = [pc EXCEPT ![t] = "get"] /\ UNCHANGED res
            /\ UNCHANGED <<cache, ci, rets, err, sched>>
Get(t) == /\ pc[t] = "get"
          /\ IF Call(t).key \in Keys
             THEN /\ res' = [res EXCEPT ![t] = cache[Pos(Call(t).key)].plan]
                  /\ pc' = [pc EXCEPT ![t] = "move"]
             ELSE /\ pc' = [pc EXCEPT ![t] = "set"] /\ UNCHANGED res
          /\ Step(t, IF Call(t).key \in Keys THEN "get_hit" ELSE "get_miss")
          /\ UNCHANGED <<cache, ci, rets, err>>
Move(t) == /\ pc[t] = "move"
           /\ IF Call(t).key \in Keys
              THEN /\ cache' = Append(RemoveAt(cache, Pos(Call(t).key)), cache[Pos(Call(t).key)])
                   /\ pc' = [pc EXCEPT ![t] = "ret"]
              ELSE /\ pc' = [pc EXCEPT ![t] = "set"]             \* evicted in between: KeyError is caught
                   /\ UNCHANGED cache
           /\ Step(t, IF Call(t).key \in Keys THEN "move" ELSE "move_miss")
           /\ UNCHANGED <<ci, res, rets, err>>
Set(t) == /\ pc[t] = "set"
          /\ LET e == [key |-> Call(t).key, plan |-> Call(t).plan] IN
             cache' = IF e.key \in Keys THEN [cache EXCEPT ![Pos(e.key)] = e] ELSE Append(cache, e)
          /\ res' = [res EXCEPT ![t] = Call(t).plan]
          /\ pc' = [pc EXCEPT ![t] = "len"]
          /\ Step(t, "set")
          /\ UNCHANGED <<ci, rets, err>>
LenCheck(t) == /\ pc[t] = "len"
               /\ pc' = [pc EXCEPT ![t] = IF Len(cache) > MaxSize THEN "pop" ELSE "ret"]
               /\ Step(t, "len")
               /\ UNCHANGED <<cache, ci, res, rets, err>>
Pop(t) == /\ pc[t] = "pop"
          /\ IF cache = <<>> THEN err' = ~PopGuarded /\ UNCHANGED cache   \* popitem on an empty dict: KeyError (caught iff guarded)
                            ELSE cache' = Tail(cache) /\ UNCHANGED err
          /\ pc' = [pc EXCEPT ![t] = "ret"]
          /\ Step(t, IF cache = <<>> THEN "pop_empty" ELSE "pop")
          /\ UNCHANGED <<ci, res, rets>>
Ret(t) == /\ pc[t] = "ret"
          /\ rets' = [rets EXCEPT ![t] = Append(rets[t], res[t])]
          /\ ci' = [ci EXCEPT ![t] = ci[t] + 1]
          /\ pc' = [pc EXCEPT ![t] = IF ci[t] = Len(Prog[t]) THEN "end" ELSE "start"]
          /\ UNCHANGED <<cache, res, err, sched>>

Next == \E t \in Threads : Start(t) \/ Get(t) \/ Move(t) \/ Set(t) \/ LenCheck(t) \/ Pop(t) \/ Ret(t)
Spec == Init /\ [][Next]_vars /\ WF_vars(Next)

AllDone == \A t \in Threads : pc[t] = "end"

NoUncaughtError == ~err
\* the value returned by a call depends only on its arguments
ReturnsOwnPlan == \A t \in Threads : \A i \in 1..Len(rets[t]) : rets[t][i] = Prog[t][i].plan
SizeBoundRestored == AllDone => Len(cache) <= (IF MaxSize = 0 THEN 0 ELSE MaxSize)
NoDuplicateKeys == \A i, j \in 1..Len(cache) : i # j => cache[i].key # cache[j].key
Terminates == <>AllDone
\* why ReturnsOwnPlan holds (its inductive strengthening): whatever sits in the cache was computed by some call from the
\* arguments filed under that key, and a thread past its lookup holds the plan of its own call
CacheFromCalls == \A i \in 1..Len(cache) : \E t \in Threads : \E j \in 1..Len(Prog[t]) :
                      Prog[t][j].key = cache[i].key /\ Prog[t][j].plan = cache[i].plan
PlanInHand == \A t \in Threads : pc[t] \in {"move", "len", "pop", "ret"} => res[t] = Call(t).plan
\* the cache never grows past MaxSize + (number of threads between their insert and their trim)
TransientBound == Len(cache) <= MaxSize + Cardinality({t \in Threads : pc[t] \in {"len", "pop"}})

\* larger instances are explored without the history variable (it only records the path)
NoHistory == <<cache, pc, ci, res, rets, err>>

\* spec -> code: every complete schedule is printed and replayed on the real cache
Export == AllDone => PrintT(<<"SCHED", sched>>)
=============================================================================
