SPECIFICATION Spec
CONSTANTS
  MaxAxes = 4
  Sizes = {1, 2, 3, 4, 6}
INVARIANT ForwardOK
INVARIANT ForwardWellFormed
INVARIANT ForwardGivesTarget
INVARIANT BackwardGivesShape
INVARIANT SparseFusedAxes
INVARIANT BackwardWithInsert
CHECK_DEADLOCK FALSE
