------------------------------ MODULE Tensors ------------------------------
(***************************************************************************)
(* Abstract values of symmray objects and their DENOTATION.                *)
(*                                                                         *)
(*   value   Gaussian integer <<re, im>>                                   *)
(*   index   [dual, cm : Seq([c, d]), sub : <<>> or <<[ixs, ext]>>]        *)
(*           ext : Seq([c, subs : Seq([ss : Seq(charge), d])])             *)
(*   block   [s : Seq(charge), shape : Seq(Nat), data : Seq(value),        *)
(*            dt : dtype name, exact : BOOLEAN]                            *)
(*   array   [t = "array", kind, cls, sym, charge, ix, blocks, phases,     *)
(*            oddpos, ids]                                                 *)
(*                                                                         *)
(* Elem(x) is what an array MEANS: the set of its non-zero elements keyed  *)
(* by labelled coordinates <<(charge, offset), ...>>, pending fermionic    *)
(* signs multiplied in.  Valid(x) is the validity predicate of C01 written *)
(* from the property text (not from the library's check()).                *)
(***************************************************************************)
EXTENDS Charges, SequencesExt, FiniteSetsExt, TLC

---------------------------------------------------------------------------
\* Gaussian integers
VZero == <<0, 0>>
VOne == <<1, 0>>
VAdd(a, b) == <<a[1] + b[1], a[2] + b[2]>>
VSub(a, b) == <<a[1] - b[1], a[2] - b[2]>>
VMul(a, b) == <<a[1] * b[1] - a[2] * b[2], a[1] * b[2] + a[2] * b[1]>>
VNeg(a) == <<0 - a[1], 0 - a[2]>>
VConj(a) == <<a[1], 0 - a[2]>>
VSgn(a, s) == IF s = 1 THEN a ELSE VNeg(a)
VAbs2(a) == a[1] * a[1] + a[2] * a[2]
VScale(a, n) == <<a[1] * n, a[2] * n>>

SumSeqInt(seq) == FoldLeft(LAMBDA acc, e : acc + e, 0, seq)
ProdSeq(seq) == FoldLeft(LAMBDA acc, e : acc * e, 1, seq)

\* row-major (C order) unravelling of a 0-based linear position
Stride(shape, i) == ProdSeq(SubSeq(shape, i + 1, Len(shape)))
Unravel(p, shape) == [i \in 1..Len(shape) |-> (p \div Stride(shape, i)) % shape[i]]
Ravel(idx, shape) == SumSeqInt([i \in 1..Len(shape) |-> idx[i] * Stride(shape, i)])

ISqrt(n) == CHOOSE r \in 0..n : r * r = n
IsSquare(n) == n >= 0 /\ \E r \in 0..n : r * r = n
AbsI(a) == IF a < 0 THEN 0 - a ELSE a

SeqRange(s) == {s[i] : i \in 1..Len(s)}
RankInLabel(lab, i) == Cardinality({j \in 1..(i - 1) : lab[j] = lab[i]})
CountLabel(lab, c) == Cardinality({j \in 1..Len(lab) : lab[j] = c})
IsPermOf(p, n) == Len(p) = n /\ SeqRange(p) = 1..n
Permuted(seq, p) == [i \in 1..Len(p) |-> seq[p[i]]]
Without(seq, rm) == LET keep == SelectSeq([i \in 1..Len(seq) |-> i], LAMBDA i : i \notin rm)
                    IN [j \in 1..Len(keep) |-> seq[keep[j]]]
Concat(seqs) == FlattenSeq(seqs)

---------------------------------------------------------------------------
\* indices
CmCharges(ix) == [i \in 1..Len(ix.cm) |-> ix.cm[i].c]
CmChargeSet(ix) == {ix.cm[i].c : i \in 1..Len(ix.cm)}
CmHas(ix, c) == \E i \in 1..Len(ix.cm) : ix.cm[i].c = c
SizeOf(ix, c) == LET i == CHOOSE j \in 1..Len(ix.cm) : ix.cm[j].c = c IN ix.cm[i].d
SizeTotal(ix) == SumSeqInt([i \in 1..Len(ix.cm) |-> ix.cm[i].d])
\* offset of charge c inside the dense axis: sizes of all strictly smaller charges
OffsetOf(ix, c) ==
  SumSeqInt([i \in 1..Len(ix.cm) |-> IF ChargeLT(ix.cm[i].c, c) THEN ix.cm[i].d ELSE 0])
IsFused(ix) == ix.sub # <<>>
SubIxs(ix) == ix.sub[1].ixs
SubExt(ix) == ix.sub[1].ext
ExtHas(ix, c) == \E i \in 1..Len(SubExt(ix)) : SubExt(ix)[i].c = c
ExtOf(ix, c) == LET i == CHOOSE j \in 1..Len(SubExt(ix)) : SubExt(ix)[j].c = c IN SubExt(ix)[i].subs

RECURSIVE ConjIndex(_)
ConjIndex(ix) ==
  [dual |-> ~ix.dual, cm |-> ix.cm,
   sub |-> IF ix.sub = <<>> THEN <<>>
           ELSE <<[ixs |-> [j \in 1..Len(SubIxs(ix)) |-> ConjIndex(SubIxs(ix)[j])],
                   ext |-> SubExt(ix)]>>]

\* an index with the sub-index bookkeeping forgotten (what matters to Elem)
PlainIndex(ix) == [dual |-> ix.dual, cm |-> ix.cm]

---------------------------------------------------------------------------
\* arrays
IsArray(x) == "t" \in DOMAIN x /\ x.t = "array"
IsVector(x) == "t" \in DOMAIN x /\ x.t = "vector"
IsScalar(x) == "t" \in DOMAIN x /\ x.t = "scalar"
IsDense(x) == "t" \in DOMAIN x /\ x.t = "dense"
IsRaise(x) == "t" \in DOMAIN x /\ x.t = "raise"
IsFermi(x) == x.kind = "fermionic"

Rank(x) == Len(x.ix)
Duals(x) == [i \in 1..Len(x.ix) |-> x.ix[i].dual]
Sectors(x) == [i \in 1..Len(x.blocks) |-> x.blocks[i].s]
SectorSet(x) == {x.blocks[i].s : i \in 1..Len(x.blocks)}
HasSector(x, s) == \E i \in 1..Len(x.blocks) : x.blocks[i].s = s
BlockOf(x, s) == LET i == CHOOSE j \in 1..Len(x.blocks) : x.blocks[j].s = s IN x.blocks[i]
AllExact(x) == \A i \in 1..Len(x.blocks) : x.blocks[i].exact
ParityOfArray(x) == Parity(x.sym, x.charge)
SectorParities(sym, s) == [i \in 1..Len(s) |-> Parity(sym, s[i])]

PhaseOf(x, s) ==
  IF x.kind # "fermionic" THEN 1
  ELSE IF \E i \in 1..Len(x.phases) : x.phases[i].s = s
       THEN LET i == CHOOSE j \in 1..Len(x.phases) : x.phases[j].s = s IN x.phases[i].p
       ELSE 1

Key(sector, idx) == [i \in 1..Len(sector) |-> <<sector[i], idx[i]>>]
KeySector(k) == [i \in 1..Len(k) |-> k[i][1]]

BlockElems(b, sgn) ==
  { [k |-> Key(b.s, Unravel(p - 1, b.shape)), v |-> VSgn(b.data[p], sgn)] :
      p \in {q \in 1..Len(b.data) : b.data[q] # VZero} }

\* the meaning of an array (pending signs applied); requires exact data
Elem(x) == UNION { BlockElems(x.blocks[i], PhaseOf(x, x.blocks[i].s)) : i \in 1..Len(x.blocks) }
\* the stored numbers, ignoring pending signs
RawElem(x) == UNION { BlockElems(x.blocks[i], 1) : i \in 1..Len(x.blocks) }

Keys(E) == {e.k : e \in E}
ValAt(E, k) == IF \E e \in E : e.k = k THEN (CHOOSE e \in E : e.k = k).v ELSE VZero
Norm2(E) == FoldSet(LAMBDA e, acc : acc + VAbs2(e.v), 0, E)
NZ(E) == {e \in E : e.v # VZero}

\* sum of values of a set of <<tag, v>> pairs
SumTagged(S) == FoldSet(LAMBDA e, acc : VAdd(acc, e[2]), VZero, S)
\* group contributions [k, m, v] by k and add them up (m keeps equal terms apart)
SumByKey(C) ==
  NZ({ [k |-> key, v |-> SumTagged({ <<c.m, c.v>> : c \in {d \in C : d.k = key} })] : key \in {c.k : c \in C} })

\* dense meaning: positions along each axis are (charges sorted, then offset)
DensePos(ixs, k) == [i \in 1..Len(k) |-> OffsetOf(ixs[i], k[i][1]) + k[i][2]]
DenseElems(x) == { [k |-> DensePos(x.ix, e.k), v |-> e.v] : e \in Elem(x) }
DenseShape(x) == [i \in 1..Len(x.ix) |-> SizeTotal(x.ix[i])]
\* non-zero entries of a logged dense ndarray
DenseNZ(d) == { [k |-> Unravel(p - 1, d.shape), v |-> d.data[p]] :
                  p \in {q \in 1..Len(d.data) : d.data[q] # VZero} }

\* two arrays denote the same tensor
SameTensor(x, y) ==
  /\ x.sym = y.sym /\ x.charge = y.charge
  /\ Duals(x) = Duals(y)
  /\ Elem(x) = Elem(y)

---------------------------------------------------------------------------
\* C01: validity, written from the property text

SortedTable(sym, ix) ==
  /\ \A i \in 1..Len(ix.cm) : /\ ix.cm[i].d \in Nat /\ ix.cm[i].d > 0
                               /\ ValidCharge(sym, ix.cm[i].c)
  /\ \A i \in 1..(Len(ix.cm) - 1) : ChargeLT(ix.cm[i].c, ix.cm[i + 1].c)

RECURSIVE ValidIndex(_, _)
ValidIndex(sym, ix) ==
  /\ SortedTable(sym, ix)
  /\ ix.sub # <<>> =>
       LET S == ix.sub[1]
           n == Len(S.ixs)
       IN /\ n >= 1
          /\ \A j \in 1..n : ValidIndex(sym, S.ixs[j])
          \* the table describes THIS index: no entries for charges the index does not have
          /\ \A e \in 1..Len(S.ext) : CmHas(ix, S.ext[e].c)
          /\ \A i \in 1..Len(ix.cm) :
               LET c == ix.cm[i].c
                   E == {e \in 1..Len(S.ext) : S.ext[e].c = c}
               IN /\ Cardinality(E) = 1
                  /\ LET subs == S.ext[CHOOSE e \in E : TRUE].subs
                     IN /\ \A a, b \in 1..Len(subs) : a # b => subs[a].ss # subs[b].ss
                        /\ \A a \in 1..Len(subs) :
                             /\ Len(subs[a].ss) = n
                             /\ \A j \in 1..n : CmHas(S.ixs[j], subs[a].ss[j])
                             /\ CombineSeq(sym, [j \in 1..n |->
                                   Sign(sym, subs[a].ss[j], S.ixs[j].dual # ix.dual)]) = c
                             /\ subs[a].d = ProdSeq([j \in 1..n |-> SizeOf(S.ixs[j], subs[a].ss[j])])
                        /\ SumSeqInt([a \in 1..Len(subs) |-> subs[a].d]) = ix.cm[i].d

ConservingSector(x, s) ==
  /\ Len(s) = Rank(x)
  /\ SignedCombine(x.sym, s, Duals(x)) = x.charge

ValidBlocks(x) ==
  /\ \A i, j \in 1..Len(x.blocks) : i # j => x.blocks[i].s # x.blocks[j].s
  /\ \A i \in 1..Len(x.blocks) :
       LET b == x.blocks[i] IN
       /\ ConservingSector(x, b.s)
       /\ \A a \in 1..Len(b.s) : CmHas(x.ix[a], b.s[a])
       /\ Len(b.shape) = Rank(x)
       /\ \A a \in 1..Len(b.s) : CmHas(x.ix[a], b.s[a]) => b.shape[a] = SizeOf(x.ix[a], b.s[a])
       /\ b.exact => Len(b.data) = ProdSeq(b.shape)

ValidFermi(x) ==
  /\ \A i \in 1..Len(x.phases) : /\ x.phases[i].p \in {1, -1}
                                  /\ ConservingSector(x, x.phases[i].s)
  /\ \A i, j \in 1..Len(x.phases) : i # j => x.phases[i].s # x.phases[j].s
  /\ Len(x.oddpos) % 2 = ParityOfArray(x)

Valid(x) ==
  /\ x.sym \in Syms
  /\ ValidCharge(x.sym, x.charge)
  /\ \A a \in 1..Len(x.ix) : ValidIndex(x.sym, x.ix[a])
  /\ ValidBlocks(x)
  /\ IsFermi(x) => ValidFermi(x)

\* names of the failing conjuncts, for verdicts
ValidWhy(x) ==
  (IF x.sym \in Syms /\ ValidCharge(x.sym, x.charge) THEN {} ELSE {"charge"})
  \cup (IF \A a \in 1..Len(x.ix) : ValidIndex(x.sym, x.ix[a]) THEN {} ELSE {"index"})
  \cup (IF ValidBlocks(x) THEN {} ELSE {"blocks"})
  \cup (IF IsFermi(x) => ValidFermi(x) THEN {} ELSE {"fermi"})

\* block vectors: keys distinct, one-dimensional blocks
ValidVector(v) ==
  /\ \A i, j \in 1..Len(v.blocks) : i # j => v.blocks[i].c # v.blocks[j].c
  /\ \A i \in 1..Len(v.blocks) : Len(v.blocks[i].shape) = 1
VecHas(v, c) == \E i \in 1..Len(v.blocks) : v.blocks[i].c = c
VecBlock(v, c) == LET i == CHOOSE j \in 1..Len(v.blocks) : v.blocks[j].c = c IN v.blocks[i]
VecKeys(v) == {v.blocks[i].c : i \in 1..Len(v.blocks)}
\* elements of a block vector keyed by <<charge, offset>>
VecElem(v) == UNION { { [k |-> <<v.blocks[i].c, p - 1>>, v |-> v.blocks[i].data[p]] :
                         p \in 1..Len(v.blocks[i].data) } : i \in 1..Len(v.blocks) }

=============================================================================
