"""C01 - every result is a valid symmetric array (validity is closed under the operations)."""
from harness import gen
from harness.drivers import walks


def run(ck):
    q = ck.tier == "quick"
    tids = gen.Tids()
    progs = walks.walk_programs(ck.seed, 320 if q else 6000, depth=7 if q else 9, tids=tids)
    ck.cov["rule"] = ("adaptive random walks of 7-9 public calls (structure, fuse/unfuse/reshape, contraction in every mode, "
                      "arithmetic, phase operations, decompositions) from random sparse inputs over Z2/U1/Z2Z2/U1U1/Z4, static and "
                      "dynamic classes, four dtypes; Valid() is evaluated by TLC on every array of every event")
    ck.conform(progs)
