"""C01 - every result is a valid symmetric array (validity is closed under the operations)."""
from harness import gen
from harness.drivers import walks


def run(ck):
    # Machine.tla: TLC checks Impl |= Props on the bounded instance and exports programs (spec -> code)
    from vlib import machine
    from harness import gen as _gen
    _tids = _gen.Tids(100000)
    mprogs = []
    mprogs += machine.run_machine(ck, "Z2", "fermionic", "PoolZ2s", "OpsAll", rank=2, depth=2, mod=40, tids=_tids)
    mprogs += machine.run_machine(ck, "Z4", "abelian", "PoolZ4", "OpsAll", rank=2, depth=2, mod=40, tids=_tids)
    if ck.tier != "quick":
        mprogs += machine.run_machine(ck, "U1", "fermionic", "PoolU1s", "OpsAll", rank=2, depth=2, mod=60, tids=_tids)
    if ck.tier != "quick":
        mprogs += machine.run_machine(ck, "Z2Z2", "abelian", "PoolZ2Z2", "OpsAll", rank=2, depth=2, mod=60, tids=_tids)
    if ck.tier != "quick":
        mprogs += machine.run_machine(ck, "U1U1", "fermionic", "PoolU1U1", "OpsAll", rank=2, depth=2, mod=100, tids=_tids)
    if ck.tier != "quick":
        mprogs += machine.run_machine(ck, "Z2", "abelian", "PoolZ2t", "OpsAll", rank=2, depth=3, mod=200, tids=_tids)
    ck.conform(mprogs)
    q = ck.tier == "quick"
    tids = gen.Tids()
    from harness.drivers import history
    progs = history.derived_programs(ck.seed, 40 if q else 800, tids=tids)
    progs += walks.walk_programs(ck.seed, 320 if q else 6000, depth=7 if q else 9, tids=tids)
    # factors of decompositions and truncations (bond limit alone, cutoffs, absorb options) of matrices with several
    # charges of unequal sizes in every direction pattern: their bond tables must match their blocks
    from harness.drivers import linalg_drv
    progs += linalg_drv.trunc_programs(ck.seed, 18 if q else 300, tids=tids)
    progs += linalg_drv.programs(ck.seed, 20 if q else 400, tids=tids)
    ck.cov["rule"] = ("adaptive random walks of 7-9 public calls (structure, fuse/unfuse/reshape, contraction in every mode, "
                      "arithmetic, phase operations, decompositions) from random sparse inputs over Z2/U1/Z2Z2/U1U1/Z4, static and "
                      "dynamic classes, four dtypes; Valid() is evaluated by TLC on every array of every event")
    ck.conform(progs)
    if ck.tier != "quick":
        ck.suite_trace(intfill=False)
        ck.suite_trace(intfill=True, limit=48)
