"""C15 - results do not depend on call history, caches or threads."""
import os

from harness import gen
from harness.drivers import history
from vlib import runner

CFG = """SPECIFICATION Spec
CONSTANTS
  Threads = {threads}
  Prog <- {prog}
  MaxSize = {size}
  PopGuarded = TRUE
INVARIANT NoUncaughtError
INVARIANT ReturnsOwnPlan
INVARIANT SizeBoundRestored
INVARIANT NoDuplicateKeys
INVARIANT CacheFromCalls
INVARIANT PlanInHand
INVARIANT TransientBound
INVARIANT Export
{extra}
CHECK_DEADLOCK FALSE
"""
PROGS = {"ProgA": {"1": ["A", "B"], "2": ["B", "A"]}, "ProgB": {"1": ["A"], "2": ["A"], "3": ["B"]}}


def run(ck):
    q = ck.tier == "quick"
    tids = gen.Tids()
    progs = history.programs(ck.seed, 60 if q else 1200, tids=tids)
    progs += history.derived_programs(ck.seed, 50 if q else 1000, tids=tids)
    # (d) every kind of call after a random warm-up of other calls = the same call in a brand-new interpreter, bit for bit
    progs += history.fresh_programs(ck.seed, 16 if q else 250, tids=tids)
    # (e) free-running threads (switch interval 1 microsecond) on shared arrays: every result = the sequential one, bit for bit
    progs += history.stress_programs(ck.seed, 8 if q else 60, tids=tids)
    rng = gen.rng_for(ck.seed, "c15")
    nsched = 0
    for pname, threads in (("ProgA", "{1, 2}"), ("ProgB", "{1, 2, 3}")):
        for size in (0, 1, 2, 9):
            cfg = os.path.join(ck.scratch, f"MC_Cache_{pname}_{size}.cfg")
            open(cfg, "w").write(CFG.format(threads=threads, prog=pname, size=size,
                                            extra="PROPERTY Terminates" if size == 1 and pname == "ProgB" else ""))
            r, st = ck.model("MC_CacheI.tla", cfg, workers=runner.NCPU)
            scheds = sorted({runner._freeze(v[1]) for v in runner.parse_tagged(r["out"], "SCHED")})
            nsched += len(scheds)
            take = scheds if not q else rng.sample(scheds, min(len(scheds), 60))
            # the rare interleavings in which a trim finds the cache already empty are always replayed
            rare = [sc for sc in scheds if any(a == "pop_empty" for _, a in sc)]
            take = list(dict.fromkeys(list(take) + (rare if not q else rare[:40])))
            ck.cov.setdefault("pop_on_empty_schedules", 0)
            ck.cov["pop_on_empty_schedules"] += len(rare)
            for sc in take:
                sym = rng.choice(gen.STATIC_SYMS)
                a = gen.rand_array(rng, sym, 3, "abelian", sparse=0.3, maxc=2)
                b = gen.rand_array(rng, sym, 3, rng.choice(["abelian", "fermionic"]), sparse=0.3, maxc=2)
                progs.append({"driver": "threads", "tid": tids(), "arrays": {"A": a, "B": b},
                              "groups": {"A": [[0, 1]], "B": [[1, 2]]}, "prog": PROGS[pname], "maxsize": size if size != 9 else 8192,
                              "sched": [list(x) for x in sc]})
    # larger instances of the protocol, explored under a VIEW that hides the schedule history (invariants only)
    VCFG = ("SPECIFICATION Spec\nCONSTANTS\n  Threads = {threads}\n  Prog <- {prog}\n  MaxSize = {size}\n  PopGuarded = TRUE\nVIEW NoHistory\n"
            "INVARIANT NoUncaughtError\nINVARIANT ReturnsOwnPlan\nINVARIANT SizeBoundRestored\nINVARIANT NoDuplicateKeys\n"
            "INVARIANT CacheFromCalls\nINVARIANT PlanInHand\nINVARIANT TransientBound\nCHECK_DEADLOCK FALSE\n")
    big = [("ProgC", "{1, 2, 3, 4}"), ("ProgD", "{1, 2, 3}")] + ([] if q else [("ProgE", "{1, 2, 3, 4}"), ("ProgF", "{1, 2, 3, 4, 5}")])
    for pname, threads in big:
        for size in ((1, 2) if q else (0, 1, 2, 3, 9)):
            cfg = os.path.join(ck.scratch, f"MC_CacheV_{pname}_{size}.cfg")
            open(cfg, "w").write(VCFG.format(threads=threads, prog=pname, size=size))
            ck.model("MC_CacheI.tla", cfg, workers=runner.NCPU, timeout=3000)
    # negative controls: the model must reject (i) the original unguarded trim (defect F14: three threads, cache size 1) and
    # (ii) a key that forgets an argument (two plans under one key) - otherwise the invariants above would be vacuous
    controls = []
    for pname, threads, size, guarded, inv in (("ProgB", "{1, 2, 3}", 1, "FALSE", "NoUncaughtError"),
                                               ("ProgBad", "{1, 2}", 2, "TRUE", "ReturnsOwnPlan"),
                                               ("ProgBad", "{1, 2}", 2, "TRUE", "PlanInHand")):
        cfg = os.path.join(ck.scratch, f"MC_CacheN_{pname}_{inv}.cfg")
        open(cfg, "w").write(f"SPECIFICATION Spec\nCONSTANTS\n  Threads = {threads}\n  Prog <- {pname}\n  MaxSize = {size}\n"
                             f"  PopGuarded = {guarded}\nVIEW NoHistory\nINVARIANT {inv}\nCHECK_DEADLOCK FALSE\n")
        r, st = ck.model("MC_CacheI.tla", cfg, workers=1, expect_ok=False)
        ck.cov["models"][-1]["negative_control"] = True    # stops at the expected counterexample, hence not "complete"
        hit = f"Invariant {inv} is violated" in r["out"]
        controls.append({"instance": pname, "PopGuarded": guarded, "invariant": inv, "violated_as_expected": hit})
        if not hit:
            ck.problems.append(f"negative control {pname}/{inv} was not rejected by the cache model")
    ck.cov["negative_controls"] = controls
    ck.cov["schedules_enumerated_by_tlc"] = nsched
    ck.cov["rule"] = ("(a) TLC explores every interleaving of the five dict operations of the cache protocol for 2 threads x 2 calls "
                      "and 3 threads x 1 call at cache sizes 0/1/2/large; every complete schedule (quick: 60 per instance) is forced "
                      "onto the real cached_fuse_block_info and the results compared with the sequential ones; (b) histories over a "
                      "family of near-identical arrays (one dual, size, label, sector, symmetry, sub-index structure) at cache sizes "
                      "1/2/8192 against a cache-off reference; (c) the default-mode context manager incl. nesting and errors")
    ck.conform(progs)
