"""C18 - local fermionic operator arrays reproduce the second-quantised operator."""
from harness import gen
from harness.drivers import localops


def run(ck):
    q = ck.tier == "quick"
    tids = gen.Tids()
    progs = localops.random_string_programs(ck.seed, 150 if q else 3000, tids)
    progs += localops.model_programs(ck.seed, 40 if q else 600, tids)
    ck.cov["rule"] = ("random term lists (strings up to length 6 over up to 4 modes, integer coefficients) and bases (any subset and "
                      "ordering of occupation states, any operator order inside a state, 1-3 sites): every element against the "
                      "Jordan-Wigner vacuum expectation; symmetric operators in the spinless/spinful bases for the four symmetries "
                      "built as arrays, applied to every basis tensor through the real tensordot, and composed (product law)")
    ck.conform(progs)
