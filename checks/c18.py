"""C18 - local fermionic operator arrays reproduce the second-quantised operator."""
from harness import gen
from harness.drivers import localops


def run(ck):
    # MC_LocalOps: bubble-sort evaluation = Fock-space vacuum expectation for every operator string
    import os
    cfg = os.path.join(ck.scratch, "MC_LocalOps.cfg")
    open(cfg, "w").write("SPECIFICATION Spec\nCONSTANTS\n  NModes = %d\n  MaxLen = %d\nINVARIANT BubbleIsFock\nINVARIANT AdjointSame\n"
                         "INVARIANT Anticommute\nCHECK_DEADLOCK FALSE\n" % ((3, 5) if ck.tier == "quick" else (4, 6)))
    ck.model("MC_LocalOps.tla", cfg, timeout=3000)
    # negative controls: commuting operators / no negative expectation must be rejected - otherwise the sign part of
    # BubbleIsFock and Anticommute would be vacuous
    ck.cov["negative_controls"] = []
    for inv in ("ControlCommute", "ControlNeverNegative") if not ck.selftest else ():
        ncfg = os.path.join(ck.scratch, f"MC_LocalOpsN_{inv}.cfg")
        open(ncfg, "w").write(f"SPECIFICATION Spec\nCONSTANTS\n  NModes = 2\n  MaxLen = 4\nINVARIANT {inv}\nCHECK_DEADLOCK FALSE\n")
        r, st = ck.model("MC_LocalOps.tla", ncfg, workers=1, expect_ok=False)
        ck.cov["models"][-1]["negative_control"] = True    # stops at the expected counterexample, hence not "complete"
        hit = f"Invariant {inv} is violated" in r["out"]
        ck.cov["negative_controls"].append({"instance": "2 modes, strings up to 4", "invariant": inv, "violated_as_expected": hit})
        if not hit:
            ck.problems.append(f"negative control {inv} was not rejected by MC_LocalOps")
    q = ck.tier == "quick"
    tids = gen.Tids()
    progs = localops.random_string_programs(ck.seed, 150 if q else 3000, tids)
    progs += localops.model_programs(ck.seed, 40 if q else 600, tids)
    progs += localops.builder_programs(ck.seed, 6 if q else 60, tids)
    ck.cov["rule"] = ("random term lists (strings up to length 6 over up to 4 modes, integer coefficients) and bases (any subset and "
                      "ordering of occupation states, any operator order inside a state, 1-3 sites): every element against the "
                      "Jordan-Wigner vacuum expectation; symmetric operators in the spinless/spinful bases for the four symmetries "
                      "built as arrays, applied to every basis tensor through the real tensordot, and composed (product law)")
    ck.conform(progs)
