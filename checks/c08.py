"""C08 - structural, elementwise and arithmetic operations commute with densification."""
from harness import gen
from harness.drivers import algebra


def run(ck):
    # Machine.tla: TLC checks Impl |= Props on the bounded instance and exports programs (spec -> code)
    from vlib import machine
    from harness import gen as _gen
    _tids = _gen.Tids(100000)
    mprogs = []
    mprogs += machine.run_machine(ck, "Z2", "abelian", "PoolZ2s", "OpsStruct", rank=2, depth=3, mod=40, tids=_tids)
    mprogs += machine.run_machine(ck, "Z2", "abelian", "PoolZ2t", "OpsArith", rank=2, depth=3, mod=60, tids=_tids)
    if ck.tier != "quick":
        mprogs += machine.run_machine(ck, "U1", "abelian", "PoolU1s", "OpsStruct", rank=2, depth=3, mod=100, tids=_tids)
        mprogs += machine.run_machine(ck, "U1", "abelian", "PoolU1s", "OpsArith", rank=2, depth=3, mod=300, tids=_tids)
        mprogs += machine.run_machine(ck, "Z2", "fermionic", "PoolZ2s", "OpsAlgebra", rank=2, depth=3, mod=300, tids=_tids)
    ck.conform(mprogs)
    q = ck.tier == "quick"
    tids = gen.Tids()
    progs = algebra.array_programs(ck.seed, 60 if q else 1200, tids=tids)
    progs += algebra.diag_programs(ck.seed, 60 if q else 1000, tids=tids)
    progs += algebra.vector_programs(ck.seed, 40 if q else 800, tids=tids)
    progs += algebra.mixed_programs(ck.seed, 30 if q else 600, tids=tids)
    ck.cov["rule"] = ("random sparse abelian arrays (with a same-shape partner storing different sectors, a diagonal vector "
                      "possibly missing charges) and block vectors; every listed operation through method / symmray / autoray; "
                      "results compared with the operation on the denotation, entry points with each other bit for bit")
    ck.conform(progs)
    if ck.tier != "quick":
        # the repository's own suite with integer data: value-level clauses on every small enough call
        ck.suite_trace(intfill=True, limit=48)
