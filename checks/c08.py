"""C08 - structural, elementwise and arithmetic operations commute with densification."""
from harness import gen
from harness.drivers import algebra


def run(ck):
    q = ck.tier == "quick"
    tids = gen.Tids()
    progs = algebra.array_programs(ck.seed, 60 if q else 1200, tids=tids)
    progs += algebra.vector_programs(ck.seed, 40 if q else 800, tids=tids)
    ck.cov["rule"] = ("random sparse abelian arrays (with a same-shape partner storing different sectors, a diagonal vector "
                      "possibly missing charges) and block vectors; every listed operation through method / symmray / autoray; "
                      "results compared with the operation on the denotation, entry points with each other bit for bit")
    ck.conform(progs)
