"""C04 - a fermionic network's value does not depend on how it is contracted."""
from harness.drivers import network


def run(ck):
    q = ck.tier == "quick"
    progs = network.route_programs(ck.seed, 100 if q else 2000, nroutes=5 if q else 8)
    ck.cov["rule"] = ("random fermionic networks (pairs with 1-2 bonds, chains of 3-4, triangles, stars; random bond orientation, "
                      "even/odd charges, distinct labels, pending signs, sparse tensors); several random routes per network differing "
                      "in pair order, operand order, axis listing, pre-transposes, one-index-at-a-time; canonicalised results and labels "
                      "must be equal along every route")
    ck.conform(progs)
