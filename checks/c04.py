"""C04 - a fermionic network's value does not depend on how it is contracted."""
from harness.drivers import network


def run(ck):
    # MC_Oddpos: the label resolution loop against the closed-form word semantics, every pair of label words
    import os
    cfg = os.path.join(ck.scratch, "MC_Oddpos.cfg")
    open(cfg, "w").write("SPECIFICATION Spec\nCONSTANTS\n  Labels = {%s}\n  MaxLen = %d\nINVARIANT ResultIsSorted\nINVARIANT SameDenotation\n"
                         "INVARIANT DistinctLabelsSorted\nCHECK_DEADLOCK FALSE\n" % (("1, 2, 3, 4", 4) if ck.tier == "quick" else ("1, 2, 3, 4, 5", 5)))
    ck.model("MC_Oddpos.tla", cfg, timeout=3000)
    # negative controls: a resolution that forgets its accumulated phase / the claim that no sign is ever needed must be
    # rejected on the small alphabet - otherwise SameDenotation would be vacuous
    ck.cov["negative_controls"] = []
    for inv in ("ControlPhaseForgotten", "ControlNeverNegative") if not ck.selftest else ():
        ncfg = os.path.join(ck.scratch, f"MC_OddposN_{inv}.cfg")
        open(ncfg, "w").write("SPECIFICATION Spec\nCONSTANTS\n  Labels = {1, 2, 3}\n  MaxLen = 3\n"
                              f"INVARIANT {inv}\nCHECK_DEADLOCK FALSE\n")
        r, st = ck.model("MC_Oddpos.tla", ncfg, workers=1, expect_ok=False)
        ck.cov["models"][-1]["negative_control"] = True    # stops at the expected counterexample, hence not "complete"
        hit = f"Invariant {inv} is violated" in r["out"]
        ck.cov["negative_controls"].append({"instance": "Labels 1..3, MaxLen 3", "invariant": inv, "violated_as_expected": hit})
        if not hit:
            ck.problems.append(f"negative control {inv} was not rejected by MC_Oddpos")
    q = ck.tier == "quick"
    # Machine.tla, chain instance: three tensors r1 - r2 - r3 (all charges, sparsity patterns and pending signs of the pool);
    # every route (which pair first, either operand order, fused / blockwise) is explored with the implementation-shaped
    # operators; invariant RouteIndependent: the result denotes the tensor of the reference route.  A sample of the routes is
    # replayed into the library and compared with the model state by state.
    from vlib import machine
    from harness import gen as _gen
    _tids = _gen.Tids(100000)
    mprogs = machine.run_machine(ck, "Z2", "fermionic", "PoolZ2t", "OpsChain", rank=2, depth=5, mod=400, tids=_tids)
    if not q:
        mprogs += machine.run_machine(ck, "Z2", "fermionic", "PoolZ2t", "OpsChainD", rank=2, depth=5, mod=2000, tids=_tids, timeout=3000)
        mprogs += machine.run_machine(ck, "U1", "fermionic", "PoolU1t", "OpsChain", rank=2, depth=5, mod=2000, tids=_tids, timeout=3000)
    ck.conform(mprogs)
    progs = network.route_programs(ck.seed, 100 if q else 2000, nroutes=5 if q else 8)
    ck.cov["rule"] = ("random fermionic networks (pairs with 1-2 bonds, chains of 3-4, triangles, stars; random bond orientation, "
                      "even/odd charges, distinct labels, pending signs, sparse tensors); several random routes per network differing "
                      "in pair order, operand order, axis listing, pre-transposes, one-index-at-a-time; canonicalised results and labels "
                      "must be equal along every route")
    ck.conform(progs)
