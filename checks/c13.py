"""C13 - truncated SVD keeps exactly what its cutoff and bond limit prescribe."""
from harness.drivers import linalg_drv


def run(ck):
    # MC_Trunc: the code-shaped threshold logic against the abstract rule, every spectrum / mode / cutoff / limit
    import os
    cfg = os.path.join(ck.scratch, "MC_Trunc.cfg")
    q0 = ck.tier == "quick"
    open(cfg, "w").write("SPECIFICATION Spec\nCONSTANTS\n  V = %d\n  Cutoffs <- %s\n  MaxBonds <- %s\n  Guarded = TRUE\n"
                         "INVARIANT ImplKeepsWhatTheRuleSays\nINVARIANT KeptAboveDiscarded\nINVARIANT SplitIsExact\nCHECK_DEADLOCK FALSE\n"
                         % ((4, "CutSetQ", "BondSetQ") if q0 else (5, "CutSet", "BondSet")))
    ck.model("MC_TruncI.tla", cfg, timeout=1800)
    q = ck.tier == "quick"
    progs = linalg_drv.trunc_programs(ck.seed, 48 if q else 900)
    ck.cov["rule"] = ("monomial-block matrices with pairwise distinct perfect-square singular values (abelian/fermionic), six cutoff "
                      "modes x ladders of dyadic cutoffs from tiny to beyond the total weight x bond limits, all absorb options; "
                      "kept set recomputed by the spec from the dense spectrum")
    ck.conform(progs)
