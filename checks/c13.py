"""C13 - truncated SVD keeps exactly what its cutoff and bond limit prescribe."""
from harness.drivers import linalg_drv


def run(ck):
    # MC_Trunc: the code-shaped threshold logic against the abstract rule, every spectrum / mode / cutoff / limit
    import os
    cfg = os.path.join(ck.scratch, "MC_Trunc.cfg")
    q0 = ck.tier == "quick"
    open(cfg, "w").write("SPECIFICATION Spec\nCONSTANTS\n  V = %d\n  Cutoffs <- %s\n  MaxBonds <- %s\n  Guarded = TRUE\n"
                         "INVARIANT ImplKeepsWhatTheRuleSays\nINVARIANT KeptAboveDiscarded\nINVARIANT SplitIsExact\nCHECK_DEADLOCK FALSE\n"
                         % ((4, "CutSetQ", "BondSetQ") if q0 else (5, "CutSet", "BondSet")))
    ck.model("MC_TruncI.tla", cfg, timeout=1800)
    # negative control: with the original threshold code (Guarded = FALSE: a cumulative cutoff beyond the total weight reads
    # sall[-0], defect F05) the model must report that the implementation keeps something else than the rule says
    if not ck.selftest:    # (the self-test of the trace binding skips the pure models)
        ncfg = os.path.join(ck.scratch, "MC_TruncN.cfg")
        open(ncfg, "w").write("SPECIFICATION Spec\nCONSTANTS\n  V = 4\n  Cutoffs <- CutSetQ\n  MaxBonds <- BondSetQ\n  Guarded = FALSE\n"
                              "INVARIANT ImplKeepsWhatTheRuleSays\nCHECK_DEADLOCK FALSE\n")
        r, st = ck.model("MC_TruncI.tla", ncfg, workers=1, expect_ok=False)
        ck.cov["models"][-1]["negative_control"] = True    # stops at the expected counterexample, hence not "complete"
        hit = "Invariant ImplKeepsWhatTheRuleSays is violated" in r["out"]
        ck.cov["negative_controls"] = [{"instance": "V=4, CutSetQ, BondSetQ", "Guarded": "FALSE",
                                        "invariant": "ImplKeepsWhatTheRuleSays", "violated_as_expected": hit}]
        if not hit:
            ck.problems.append("negative control (unguarded cumulative threshold, F05) was not rejected by MC_Trunc")
    q = ck.tier == "quick"
    progs = linalg_drv.trunc_programs(ck.seed, 48 if q else 900)
    ck.cov["rule"] = ("monomial-block matrices with pairwise distinct perfect-square singular values (abelian/fermionic), six cutoff "
                      "modes x ladders of dyadic cutoffs from tiny to beyond the total weight x bond limits, all absorb options; "
                      "kept set recomputed by the spec from the dense spectrum")
    ck.conform(progs)
