"""C13 - truncated SVD keeps exactly what its cutoff and bond limit prescribe."""
from harness.drivers import linalg_drv


def run(ck):
    q = ck.tier == "quick"
    progs = linalg_drv.trunc_programs(ck.seed, 48 if q else 900)
    ck.cov["rule"] = ("monomial-block matrices with pairwise distinct perfect-square singular values (abelian/fermionic), six cutoff "
                      "modes x ladders of dyadic cutoffs from tiny to beyond the total weight x bond limits, all absorb options; "
                      "kept set recomputed by the spec from the dense spectrum")
    ck.conform(progs)
