"""C06 - contraction commutes with fusing; all contraction strategies agree."""
from harness.drivers import fuse


def run(ck):
    q = ck.tier == "quick"
    from harness import gen
    from harness.drivers import contract
    tids = gen.Tids()
    progs = fuse.commute_programs(ck.seed, 240 if q else 4000, tids=tids)
    from harness.drivers import history
    progs += history.derived_programs(ck.seed, 40 if q else 800, tids=tids)
    for kind in ("abelian", "fermionic"):
        progs += contract.sparse_rank4_programs(ck.seed, 80 if q else 1500, kind, tids=tids, salt="c06s4",
                                                 rel_clause="C06.strategies_agree.sparse")
    ck.cov["rule"] = ("random contractible sparse pairs (abelian/fermionic): fused vs blockwise vs auto results equal "
                      "incl. index structure; contraction over fused pair after align_axes; fusing free legs before/after")
    ck.conform(progs)
