"""C06 - contraction commutes with fusing; all contraction strategies agree."""
from harness.drivers import fuse


def run(ck):
    q = ck.tier == "quick"
    progs = fuse.commute_programs(ck.seed, 240 if q else 4000)
    ck.cov["rule"] = ("random contractible sparse pairs (abelian/fermionic): fused vs blockwise vs auto results equal "
                      "incl. index structure; contraction over fused pair after align_axes; fusing free legs before/after")
    ck.conform(progs)
