"""C07 - reshape only regroups axes and is undone by reshaping back."""
from harness.drivers import fuse


def run(ck):
    q = ck.tier == "quick"
    progs = fuse.reshape_programs(ck.seed, 200 if q else 3000)
    ck.cov["rule"] = ("random sparse abelian/fermionic arrays incl. unit axes of zero and non-zero charge; every target "
                      "is a merge of adjacent axes and/or drop of unit axes; reverse trip and same-shape identity")
    ck.conform(progs)
