"""C07 - reshape only regroups axes and is undone by reshaping back."""
from harness.drivers import fuse


def run(ck):
    q = ck.tier == "quick"
    import itertools
    from harness import gen
    # MC_Reshape: the transcribed routine (ReshapeImpl.tla) on EVERY shape / merge-drop target of the bound, forward and back,
    # judged by the plan semantics - no Python involved; the recorded calls of the real routine below are then compared
    # with the same transcription (L2.reshape_args)
    import os
    cfg = os.path.join(ck.scratch, "MC_Reshape.cfg")
    open(cfg, "w").write("SPECIFICATION Spec\nCONSTANTS\n  MaxAxes = %d\n  Sizes = {1, 2, 3, 4, 6}\nINVARIANT ForwardOK\n"
                         "INVARIANT ForwardWellFormed\nINVARIANT ForwardGivesTarget\nINVARIANT BackwardGivesShape\nINVARIANT SparseFusedAxes\nINVARIANT BackwardWithInsert\nCHECK_DEADLOCK FALSE\n"
                         % (4 if q else 6))
    ck.model("MC_Reshape.tla", cfg, timeout=3000)
    # negative control: the routine as it was before the repair of F17 (ReshapeImpl!CalcOriginal) must be rejected on the
    # sparse identity / unit-insertion requests - otherwise SparseFusedAxes above would be vacuous
    ncfg = os.path.join(ck.scratch, "MC_ReshapeN.cfg")
    open(ncfg, "w").write("SPECIFICATION Spec\nCONSTANTS\n  MaxAxes = 3\n  Sizes = {1, 2, 3, 4, 6}\n"
                          "INVARIANT ControlOriginalSparse\nCHECK_DEADLOCK FALSE\n")
    r, st = ck.model("MC_Reshape.tla", ncfg, workers=1, expect_ok=False)
    ck.cov["models"][-1]["negative_control"] = True    # stops at the expected counterexample, hence not "complete"
    hit = "Invariant ControlOriginalSparse is violated" in r["out"]
    ck.cov["negative_controls"] = [{"instance": "MaxAxes=3", "routine": "CalcOriginal (before the repair of F17)",
                                    "invariant": "ControlOriginalSparse", "violated_as_expected": hit}]
    if not hit:
        ck.problems.append("negative control (pre-F17 reshape parse) was not rejected by MC_Reshape")
    # Machine.tla, reshape instance: every merge / flatten / unit drop / unit insertion / way back of the arrays of the pool
    # (sparse ones leave fused axes SMALLER than the product of their pieces), model-checked and replayed
    from vlib import machine
    _tids = gen.Tids(100000)
    mprogs = machine.run_machine(ck, "Z2", "fermionic", "PoolZ2s", "OpsReshapeOnly", rank=3, depth=3, mod=150, tids=_tids)
    if not q:
        mprogs += machine.run_machine(ck, "Z2", "fermionic", "PoolZ2s", "OpsReshape", rank=3, depth=3, mod=300, tids=_tids, timeout=3000)
        mprogs += machine.run_machine(ck, "U1", "abelian", "PoolU1s", "OpsReshape", rank=3, depth=3, mod=100, tids=_tids, timeout=3000)
    ck.conform(mprogs)
    progs = fuse.reshape_programs(ck.seed, 200 if q else 3000)
    progs += fuse.reshape_twin_programs(ck.seed, 24 if q else 400, tids=gen.Tids(300000))
    # routine level: the whole domain of the axis-matching routine (all shapes with <= 5 axes over {1,2,3,4,6}),
    # quick: all shapes with <= 3 axes and a seeded tenth of the larger ones
    shapes = [list(s) for n in range(1, 6) for s in itertools.product((1, 2, 3, 4, 6), repeat=n)]
    rng = gen.rng_for(ck.seed, "c07shapes")
    if q:
        # quick: all shapes with <= 3 axes, all shapes with 4 axes over {1, 2, 3}, and a seeded sample of the larger ones
        shapes = ([s for s in shapes if len(s) <= 3] + [s for s in shapes if len(s) == 4 and max(s) <= 3]
                  + rng.sample([s for s in shapes if len(s) > 3 and not (len(s) == 4 and max(s) <= 3)], 250))
    ck.cov["routine_shapes"] = len(shapes)
    ck.cov["exhaustive"] = not q
    for k in range(0, len(shapes), 25):
        progs.append({"driver": "reshapeargs", "tid": 500000 + k, "shapes": shapes[k:k + 25]})
    ck.cov["rule"] = ("random sparse abelian/fermionic arrays incl. unit axes of zero and non-zero charge; every target "
                      "is a merge of adjacent axes and/or drop of unit axes; reverse trip and same-shape identity")
    ck.conform(progs)
