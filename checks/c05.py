"""C05 - fusing is an exact, invertible re-indexing described by the fused index."""
from harness import gen
from harness.drivers import fuse


def run(ck):
    q = ck.tier == "quick"
    from harness import gen
    tids = gen.Tids()
    progs = fuse.fuse_programs(ck.seed, 240 if q else 4000, tids=tids)
    progs += fuse.single_group_programs(ck.seed, 80 if q else 1500, tids=tids)
    ck.cov["rule"] = ("random sparse abelian/fermionic arrays of rank 2-4, 1-2 disjoint groups (single-axis, permuted, "
                      "non-adjacent, nested), both strategies, cache off/one/cold; relocation read back through the "
                      "result's own sub-index table")
    ck.conform(progs)
