"""C05 - fusing is an exact, invertible re-indexing described by the fused index."""
from harness import gen
from harness.drivers import fuse


def run(ck):
    # Machine.tla: TLC checks Impl |= Props on the bounded instance and exports programs (spec -> code)
    from vlib import machine
    from harness import gen as _gen
    _tids = _gen.Tids(100000)
    mprogs = []
    mprogs += machine.run_machine(ck, "Z2", "abelian", "PoolZ2t", "OpsFuse", rank=3, depth=3, mod=40, tids=_tids)
    if ck.tier != "quick":
        mprogs += machine.run_machine(ck, "Z2", "fermionic", "PoolZ2t", "OpsFuse", rank=3, depth=3, mod=60, tids=_tids)
    if ck.tier != "quick":
        mprogs += machine.run_machine(ck, "U1", "fermionic", "PoolU1t", "OpsFuse", rank=3, depth=3, mod=200, tids=_tids)
    ck.conform(mprogs)
    q = ck.tier == "quick"
    from harness import gen
    tids = gen.Tids()
    progs = fuse.fuse_programs(ck.seed, 240 if q else 4000, tids=tids)
    from harness.drivers import history
    progs += history.derived_programs(ck.seed, 40 if q else 800, tids=tids)
    progs += fuse.single_group_programs(ck.seed, 80 if q else 1500, tids=tids)
    progs += fuse.mixed_fuse_programs(ck.seed, 40 if q else 800, tids=tids)
    ck.cov["rule"] = ("random sparse abelian/fermionic arrays of rank 2-4, 1-2 disjoint groups (single-axis, permuted, "
                      "non-adjacent, nested), both strategies, cache off/one/cold; relocation read back through the "
                      "result's own sub-index table")
    ck.conform(progs)
    if ck.tier != "quick":
        # the repository's own suite with integer data: value-level clauses on every small enough call
        ck.suite_trace(intfill=True, limit=48)
