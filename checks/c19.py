"""C19 - edge-wise Hamiltonians add up to the lattice Hamiltonian, each term once."""
from harness import gen
from harness.drivers import localops


def run(ck):
    q = ck.tier == "quick"
    tids = gen.Tids()
    progs = localops.ham_programs(ck.seed, tids, quick=q)
    ck.cov["exhaustive"] = not q
    ck.cov["rule"] = ("simple graphs without isolated sites on 2-4 labelled sites (all of them in the thorough tier, 24 sampled in quick) "
                      "plus seeded graphs on 5-6 sites; int / tuple / string labels in shuffled order, edges in either orientation; "
                      "coefficients as scalars, dicts (either orientation) or callables, site dependent U and mu (multiples of 60); "
                      "every returned edge array is compared with the operator built from the spec's own degree count")
    ck.conform(progs)
