"""C02 - abelian contraction equals dense contraction."""
from harness import gen
from harness.drivers import contract


def run(ck):
    n = 160 if ck.tier == "quick" else 2500
    tids = gen.Tids()
    progs = contract.programs(ck.seed, n, "abelian", tids=tids)
    progs += contract.matmul_programs(ck.seed, n // 4, "abelian", tids=tids)
    ck.cov["rule"] = ("random contractible pairs of sparse abelian arrays over Z2/U1/Z2Z2/U1U1/Z4, ranks 0-3, "
                      "every mode and axes form; distinct = distinct (inputs, axes, mode) programs")
    ck.conform(progs)
