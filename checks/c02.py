"""C02 - abelian contraction equals dense contraction."""
from harness import gen
from harness.drivers import contract


def run(ck):
    # Machine.tla: TLC checks Impl |= Props on the bounded instance and exports programs (spec -> code)
    from vlib import machine
    from harness import gen as _gen
    _tids = _gen.Tids(100000)
    mprogs = []
    mprogs += machine.run_machine(ck, "Z2", "abelian", "PoolZ2s", "OpsContract", rank=2, depth=3, mod=150, tids=_tids)
    if ck.tier != "quick":
        mprogs += machine.run_machine(ck, "U1", "abelian", "PoolU1s", "OpsContract", rank=2, depth=3, mod=100, tids=_tids)
    if ck.tier != "quick":
        mprogs += machine.run_machine(ck, "Z2Z2", "abelian", "PoolZ2Z2", "OpsContract", rank=2, depth=3, mod=150, tids=_tids)
    if ck.tier != "quick":
        mprogs += machine.run_machine(ck, "Z4", "abelian", "PoolZ4", "OpsContract", rank=2, depth=3, mod=150, tids=_tids)
    if ck.tier != "quick":
        # rank-4 first operands over one two-charge table: every dual pattern, charge, first/last sector missing,
        # every ordered choice of contracted axes, every mode
        mprogs += machine.run_machine(ck, "Z2", "abelian", "PoolZ2t", "OpsContract", rank=4, depth=3, mod=300, tids=_tids, timeout=3000)
    mprogs += machine.run_machine(ck, "U1", "abelian", "PoolU1t", "OpsEinsum", rank=3, depth=2 if ck.tier == "quick" else 3, mod=40 if ck.tier == "quick" else 400, tids=_tids)
    ck.conform(mprogs)
    n = 160 if ck.tier == "quick" else 2500
    tids = gen.Tids()
    progs = contract.programs(ck.seed, n, "abelian", tids=tids)
    progs += contract.matmul_programs(ck.seed, n // 4, "abelian", tids=tids)
    progs += contract.sparse_rank4_programs(ck.seed, 120 if ck.tier == "quick" else 2500, "abelian", tids=tids)
    ck.cov["rule"] = ("random contractible pairs of sparse abelian arrays over Z2/U1/Z2Z2/U1U1/Z4, ranks 0-3, "
                      "every mode and axes form; distinct = distinct (inputs, axes, mode) programs")
    ck.conform(progs)
    if ck.tier != "quick":
        # the repository's own suite with integer data: value-level clauses on every small enough call
        ck.suite_trace(intfill=True, limit=48)
