"""C17 - charges form an abelian group with parity; sector enumeration is exact."""
import os

from harness import gen
from vlib import runner

CFG = """SPECIFICATION Spec
CONSTANTS
  Sym = "{sym}"
  BoxK = {k}
  MaxRank = {rank}
INVARIANT SectorsExact
CONSTRAINT ExportCase
CHECK_DEADLOCK FALSE
"""


def run(ck):
    q = ck.tier == "quick"
    tids = gen.Tids()
    progs = []
    plan = {"Z2": (1, 3 if q else 4), "Z4": (1, 2), "Z2Z2": (1, 2), "U1": (6, 2 if q else 3),
            "U1U1": (3 if q else 6, 1 if q else 2)}
    ncases = 0
    for sym, (k, rank) in plan.items():
        cfg = os.path.join(ck.scratch, f"MC_Charges_{sym}.cfg")
        open(cfg, "w").write(CFG.format(sym=sym, k=k, rank=rank))
        r, st = ck.model("MC_Charges.tla", cfg, workers=runner.NCPU)
        cases = {runner._freeze(v[1:]) for v in runner.parse_tagged(r["out"], "CASE")}
        cases = sorted(cases, key=repr)
        ncases += len(cases)
        # spec -> code: every case TLC explored is run through the real gen_valid_sectors
        batch = []
        for n, (ixs, charge) in enumerate(cases):
            case = {"ix": [{"dual": dict(ix)["dual"], "charges": sorted(list(c) for c in dict(ix)["charges"])}
                           for ix in ixs],
                    "charge": list(charge), "cls": ("static", "dynamic")[n % 2] if sym != "Z4" else "dynamic",
                    "kind": ("abelian", "fermionic")[(n // 2) % 2]}
            if case["kind"] == "fermionic" and sym == "Z4":
                case["cls"] = "dynamic"
            batch.append(case)
            if len(batch) == 200:
                progs.append({"driver": "charges", "tid": tids(), "what": "sectors", "sym": sym, "cases": batch})
                batch = []
        if batch:
            progs.append({"driver": "charges", "tid": tids(), "what": "sectors", "sym": sym, "cases": batch})
        # code -> spec: the real combine / sign / parity / valid tables
        kk = {"U1": 6, "U1U1": 3 if q else 6}.get(sym, 1)
        progs.append({"driver": "charges", "tid": tids(), "what": "pairs", "sym": sym, "k": kk})
        ka = {"U1": 6, "U1U1": 2 if q else 6}.get(sym, 1)
        from harness.special.charges import box
        for a in box(sym, ka):
            progs.append({"driver": "charges", "tid": tids(), "what": "assoc", "sym": sym, "k": ka,
                          "as": [list(a) if isinstance(a, tuple) else [a, 0]]})
    if not q:
        # the unbounded part: TLAPS proves the U1 / U1U1 group laws for all integers
        import re, shutil, subprocess, tempfile
        work = tempfile.mkdtemp(prefix="tlaps", dir=ck.scratch)
        shutil.copy(os.path.join(runner.SPEC, "ChargesProofs.tla"), work)
        p = subprocess.run(["tlapm", "--toolbox", "0", "0", "ChargesProofs.tla"], cwd=work, capture_output=True, text=True, timeout=900)
        out = p.stdout + p.stderr
        m = re.search(r"All (\d+) obligations? proved", out)
        ck.cov["obligations"] = int(m.group(1)) if m else len(re.findall(r"@!!type:obligation", out))
        ck.cov["discharged"] = int(m.group(1)) if m else len(re.findall(r"@!!status:proved", out))
        ck.cov["checker_cmd"] = "tlapm ChargesProofs.tla"
        if not m:
            ck.problems.append("TLAPS did not prove ChargesProofs.tla:\n" + out[-1500:])
    ck.cov["exhaustive"] = True
    ck.cov["cases_exported_by_tlc"] = ncases
    ck.cov["rule"] = ("TLC enumerates every index structure (rank, dual pattern, non-empty subset of the charge pool per index, "
                      "total charge) within the bounds and checks the library-shaped generator against the defining set; every "
                      "explored case is replayed through the real gen_valid_sectors; the real combine/sign/parity/valid answers on "
                      "the finite groups and on the box [-6,6] (U1U1: [-3,3]^2 quick, [-6,6]^2 thorough) are validated by TLC "
                      "against the group axioms")
    ck.conform(progs, sample=3)
