"""C10 - conjugation gives the bra: norms are positive and adjoint laws hold."""
from harness import gen
from harness.drivers import conj, network


def run(ck):
    # Machine.tla: TLC checks Impl |= Props on the bounded instance and exports programs (spec -> code)
    from vlib import machine
    from harness import gen as _gen
    _tids = _gen.Tids(100000)
    mprogs = []
    mprogs += machine.run_machine(ck, "Z2", "fermionic", "PoolZ2s", "OpsStruct", rank=2, depth=3, mod=80, tids=_tids)
    if ck.tier != "quick":
        mprogs += machine.run_machine(ck, "U1", "fermionic", "PoolU1s", "OpsStruct", rank=2, depth=3, mod=200, tids=_tids)
    ck.conform(mprogs)
    q = ck.tier == "quick"
    tids = gen.Tids()
    progs = conj.programs(ck.seed, 150 if q else 3000, tids=tids)
    progs += conj.product_programs(ck.seed, 60 if q else 1200, tids=tids)
    progs += network.norm_programs(ck.seed, 60 if q else 1000, tids=tids)
    ck.cov["rule"] = ("random fermionic arrays (every dual pattern incl. all-ket, even/odd with ket and bra labels, pending signs, "
                      "real/complex): conj/dagger for both settings of the dual-leg option against the word semantics, <x|x> in both "
                      "operand orders, involution laws; 2-3 tensor networks conjugated tensor by tensor along random routes")
    ck.conform(progs)
