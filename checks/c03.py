"""C03 - fermionic operations follow graded tensor semantics."""
from harness import gen
from harness.drivers import contract, fermi


def run(ck):
    # Machine.tla: TLC checks Impl |= Props on the bounded instance and exports programs (spec -> code)
    from vlib import machine
    from harness import gen as _gen
    _tids = _gen.Tids(100000)
    mprogs = []
    mprogs += machine.run_machine(ck, "Z2", "fermionic", "PoolZ2t", "OpsContract", rank=2, depth=3, mod=150, tids=_tids)
    if ck.tier != "quick":
        mprogs += machine.run_machine(ck, "U1", "fermionic", "PoolU1t", "OpsContract", rank=2, depth=3, mod=200, tids=_tids)
    if ck.tier != "quick":
        mprogs += machine.run_machine(ck, "Z2", "fermionic", "PoolZ2s", "OpsContract", rank=2, depth=3, mod=150, tids=_tids)
    mprogs += machine.run_machine(ck, "Z2", "fermionic", "PoolZ2t", "OpsEinsum", rank=3, depth=2 if ck.tier == "quick" else 3, mod=40 if ck.tier == "quick" else 400, tids=_tids)
    ck.conform(mprogs)
    q = ck.tier == "quick"
    tids = gen.Tids()
    syms = gen.STATIC_SYMS + ("Z4",)
    progs = contract.programs(ck.seed, 140 if q else 2500, "fermionic", syms=syms, tids=tids)
    progs += contract.matmul_programs(ck.seed, 40 if q else 600, "fermionic", syms=syms, tids=tids)
    progs += contract.sparse_rank4_programs(ck.seed, 80 if q else 1500, "fermionic", syms=syms, tids=tids)
    from harness.drivers import network
    progs += network.norm_programs(ck.seed, 60 if q else 1000, tids=tids)
    progs += fermi.transpose_programs(ck.seed, 60 if q else 1000, tids=tids)
    progs += fermi.einsum_programs(ck.seed, 40 if q else 600, "fermionic", tids=tids)
    ck.cov["rule"] = ("random sparse fermionic arrays (even/odd, pending signs, labels) over all symmetries; "
                      "transpose by every kind of permutation, tensordot in all modes/axes forms, matmul, trace, einsum")
    ck.conform(progs)
    if ck.tier != "quick":
        # the repository's own suite with integer data: value-level clauses on every small enough call
        ck.suite_trace(intfill=True, limit=48)
