"""C14 - operations never modify their operands unless asked to."""
from harness import gen
from harness.drivers import alias, walks


def run(ck):
    # Machine.tla: TLC checks Impl |= Props on the bounded instance and exports programs (spec -> code)
    from vlib import machine
    from harness import gen as _gen
    _tids = _gen.Tids(100000)
    mprogs = []
    mprogs += machine.run_machine(ck, "Z2", "fermionic", "PoolZ2s", "OpsAll", rank=2, depth=2, mod=40, tids=_tids)
    ck.conform(mprogs)
    q = ck.tier == "quick"
    tids = gen.Tids()
    progs = alias.programs(ck.seed, 100 if q else 1500, tids=tids)
    progs += alias.binary_programs(ck.seed, 60 if q else 1200, tids=tids)
    progs += walks.walk_programs(ck.seed, 200 if q else 4000, depth=8, tids=tids, salt="walk14")
    ck.cov["rule"] = ("every operation with an in-place flag run out of place and in place on a copy (results must be equal), "
                      "each result then mutated in place (operands must not change); plus adaptive walks with 20% in-place calls; "
                      "the frame clause compares the full observable state of every non-target register around every call")
    ck.conform(progs)
    # the repository's own suite, traced: frame clause (with block checksums) on every call the tests make
    ck.suite_trace(intfill=False)
