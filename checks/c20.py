"""C20 - element type and precision are preserved."""
from harness import gen
from harness.drivers import contract, fuse, walks


def run(ck):
    # Machine.tla: TLC checks Impl |= Props on the bounded instance and exports programs (spec -> code)
    from vlib import machine
    from harness import gen as _gen
    _tids = _gen.Tids(100000)
    mprogs = []
    mprogs += machine.run_machine(ck, "Z2", "abelian", "PoolZ2s", "OpsAll", rank=2, depth=2, mod=20, tids=_tids)
    ck.conform(mprogs)
    q = ck.tier == "quick"
    tids = gen.Tids()
    progs = walks.walk_programs(ck.seed, 200 if q else 4000, depth=8, tids=tids, salt="walk20")
    progs += fuse.fuse_programs(ck.seed + 1, 80 if q else 1500, tids=tids)
    progs += fuse.single_group_programs(ck.seed + 1, 120 if q else 2000, tids=tids)
    progs += contract.programs(ck.seed + 1, 80 if q else 1500, "abelian", tids=tids, dtypes=gen.DTYPES, salt="c20a")
    progs += contract.programs(ck.seed + 1, 40 if q else 800, "fermionic", syms=gen.STATIC_SYMS, tids=tids,
                               dtypes=gen.DTYPES, salt="c20f")
    from harness.drivers import linalg_drv
    progs += linalg_drv.dtype_programs(ck.seed, 64 if q else 800, tids=tids)
    ck.cov["rule"] = ("walks, fuse (both strategies, sparse so that zero blocks are created) and contractions through the fused "
                      "path in float32/float64/complex64/complex128; the dtype of every block, vector and numpy scalar of every "
                      "result is compared with the operands' (real counterpart for singular values)")
    ck.conform(progs)
    if ck.tier != "quick":
        ck.suite_trace(intfill=False)
        ck.suite_trace(intfill=True, limit=48)
