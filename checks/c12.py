"""C12 - decompositions / spectra (see DESIGN.md)."""
from harness.drivers import linalg_drv


def run(ck):
    q = ck.tier == "quick"
    progs = linalg_drv.programs(ck.seed, 120 if q else 2500)
    ck.cov["rule"] = ("random symmetric matrices (abelian/fermionic, every dual pattern and charge, tall/wide/square/rank-deficient "
                      "blocks, missing blocks, pending signs): integer families (monomial / diagonal blocks) decided exactly by TLC, "
                      "float and fused matrices through logged tolerance observations; qr, svd, eigh, solve")
    ck.conform(progs)
