"""C12 - decompositions / spectra (see DESIGN.md)."""
from harness.drivers import linalg_drv


def run(ck):
    q = ck.tier == "quick"
    progs = linalg_drv.programs(ck.seed, 120 if q else 2500)
    # the Frobenius norm of arrays whose blocks have different element types (real + complex with fewer sectors),
    # abelian and fermionic, against the denotation
    from harness.drivers import algebra
    from harness import gen
    progs += algebra.mixed_programs(ck.seed, 24 if q else 500, tids=gen.Tids(50000), kinds=("abelian", "fermionic"),
                                    norm_clause="C12.norm_equals_dense")
    ck.cov["rule"] = ("random symmetric matrices (abelian/fermionic, every dual pattern and charge, tall/wide/square/rank-deficient "
                      "blocks, missing blocks, pending signs): integer families (monomial / diagonal blocks) decided exactly by TLC, "
                      "float and fused matrices through logged tolerance observations; qr, svd, eigh, solve")
    ck.conform(progs)
