"""C09 - lazily tracked fermionic signs are unobservable."""
from harness import gen
from harness.drivers import lazy, linalg_drv


def run(ck):
    q = ck.tier == "quick"
    tids = gen.Tids()
    progs = lazy.programs(ck.seed, 80 if q else 1500, tids=tids)
    progs += linalg_drv.lazy_linalg_programs(ck.seed, 40 if q else 600, tids=tids)
    ck.cov["rule"] = ("random fermionic arrays with pending signs produced by phase_flip / phase_transpose / phase_global / conj / "
                      "transpose prefixes; every operation applied to the lazy array and to its synchronised copy, results "
                      "required to denote the same tensor / scalar / dense array; sync idempotent and sign applied exactly once")
    ck.conform(progs)
