"""C09 - lazily tracked fermionic signs are unobservable."""
from harness import gen
from harness.drivers import lazy, linalg_drv


def run(ck):
    # Machine.tla: TLC checks Impl |= Props on the bounded instance and exports programs (spec -> code)
    from vlib import machine
    from harness import gen as _gen
    _tids = _gen.Tids(100000)
    mprogs = []
    mprogs += machine.run_machine(ck, "Z2", "fermionic", "PoolZ2t", "OpsPhase", rank=2, depth=3, mod=40, tids=_tids)
    if ck.tier != "quick":
        mprogs += machine.run_machine(ck, "U1", "fermionic", "PoolU1t", "OpsPhase", rank=2, depth=3, mod=100, tids=_tids)
    ck.conform(mprogs)
    q = ck.tier == "quick"
    tids = gen.Tids()
    progs = lazy.programs(ck.seed, 80 if q else 1500, tids=tids)
    progs += linalg_drv.lazy_linalg_programs(ck.seed, 40 if q else 600, tids=tids)
    ck.cov["rule"] = ("random fermionic arrays with pending signs produced by phase_flip / phase_transpose / phase_global / conj / "
                      "transpose prefixes; every operation applied to the lazy array and to its synchronised copy, results "
                      "required to denote the same tensor / scalar / dense array; sync idempotent and sign applied exactly once")
    ck.conform(progs)
