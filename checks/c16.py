"""C16 - all ways of building an array agree, and dense conversion round-trips."""
from harness.drivers import construct


def run(ck):
    q = ck.tier == "quick"
    progs = construct.programs(ck.seed, 120 if q else 2500)
    ck.cov["rule"] = ("a reference tensor (every valid sector stored, counting fill) rebuilt through from_blocks / class constructor "
                      "(with and without blocks) / from_fill_fn / from_dense for static and dynamic classes and every combination of "
                      "omitted charge / symmetry arguments; dense arrays with interleaved unsorted labels converted to blocks and back")
    ck.conform(progs)
